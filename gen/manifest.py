#!/usr/bin/env python3
"""Writes /verif/MANIFEST.json (kept in a script so the per-property texts stay reviewable)."""
import json, os
V = os.path.dirname(os.path.dirname(os.path.abspath(__file__)))
TECH = 'deterministic simulation with fault injection: seeded runs of real FSM::Instance nodes (authority, twin, copy, followers over a lossy transport, durable store with crash/restart) under behaviour cards; '
C = {
 'C01': ('well-formedness invariant evaluated on every node after every operation and inside update/react/query/guard callbacks', '9 C01',
         'exploration of seeded histories (all request kinds, guard vetoes and substitutions, adversarial select()/utility()/rng values, reset, loads into unrelated configurations, replays, crash recovery) on 18 fixed shapes x up to 19 configurations; the invariant is model-free (computed from an independently derived structure table)',
         'trusts gen/shapes.py for the structure table (static_asserted against the library ids/counts) and the harness observation through isActive()/activeSubState(); generator respects the documented preconditions; sampling, not enumeration'),
 'C02': ('clause-wise reference model (sim/model.cpp) fed the observed approved requests, resolver returns and random numbers: destination active, choice by request kind, untouched regions, resumable marks, reset, idle processing; requests are queued as the kind and destination the caller named, through the id-based and the templated flavour of the API alike', '9 C02 / Appendix B.1',
         'refinement of sampled steps against a small executable model written from the statement; clauses the statement leaves open are explicit don\'t-cares; documented defects of batch handling are avoided and announced as known findings',
         'the model (about 300 lines) is part of the trusted base; multi-request batches are only checked for untouched regions and resumable marks while findings F-C02-1..4 are open'),
 'C03': ('per-(instance,state) lifecycle automaton over the callback trace plus object identity (this == &access<State>(), inside the arena); entered set equals active set after every operation; everything exited after exit()/destruction', '9 C03',
         'exploration over construction-to-destruction histories including manual enter/exit cycles, reset, load, replay, crash (storage dropped), copies and death of the original',
         'trusts the harness trace (every callback of every headed state records itself)'),
 'C04': ('guard-round structure extracted from the trace: exit guards before entry guards per round, no lifecycle callback before the last guard, pending view of round k = requests issued by guards of round k-1, every exited/entered state guarded in an approved round, all-vetoed steps change nothing, rounds <= substitution limit', '9 C04 / Appendix B.2',
         'exploration with cancellation / substitution cards at arbitrary guard call sites, substitution limits 1,2,4',
         'round boundaries are inferred from the trace (exit-after-entry, repeated guard, changed pending list); a round that consults no guard is treated as unobservable'),
 'C05': ('predicted callback sequence of update/react/query (top-down and bottom-up builds, injected handlers, consume at arbitrary state and phase) compared with the trace; query leaves the state key unchanged', '9 C05 / Appendix B.3',
         'refinement of every update/react/query against the order model on all shapes incl. orthogonal leaf siblings and StateT injections',
         'position of injected vs own handler inside query() is not compared; finding F-C05-1 open'),
 'C06': ('plan model: plan-issued requests (seen by guards / logger) match a stored task (destination, payload, kind) whose origin was active and succeeded; executed tasks removed exactly once; completeness in the statement\'s simple situation; marks cleared after the step (probe)', '9 C06 / Appendix B.4',
         'exploration with dense plan edits, succeed/fail cards in every phase, external succeed/fail, task capacities 1,3,default',
         'completeness is decided only when marks are self-reports or client calls on active direct sub-states and nobody requests a transition in the step; findings F-C06-1..4 open'),
 'C07': ('per-region vector model of the observed edits compared with Plan iteration after every operation; append result vs capacity; link structure through the probe (disjoint, acyclic, doubly linked, lengths add up)', '9 C07',
         'exploration of interleaved append / remove-while-iterating / clear from callbacks of different regions and from outside, at capacities 1, 3 and default',
         'hook HFSM2_VERIF probe (read-only friend) exposes taskLinks/taskBounds; capacities are those of the built shapes'),
 'C08': ('snapshot round trip on followers and on the restarted authority: active and resumable equal to the saved instance, re-save bit-identical, exits/enters match the configuration change, save() pure, buffer between guard bytes and pre-filled with a per-node pattern, declared bit capacity equal to the longest image the structure can produce', '9 C08',
         'exploration with fault injection: drop / reorder / partition / perturbation put the loading instance into unrelated or inactive configurations; crash + restart loads into a fresh instance in dirty memory; peer of a separately instantiated type',
         'no corrupted buffers are injected (the library promises nothing for them)'),
 'C09': ('history content rules (sub-sequence of approved requests, empty when nothing approved, lastTransitionTo inside the array, single approved request pins every state it activated) and follower / recovery agreement after replayTransitions()/replayEnter() without guard calls', '9 C09 / Appendix B.5',
         'exploration with drop / duplicate / reorder / delay / partition and crash + restart (snapshot + log replay)',
         'replicas are compared only when they were in the authority\'s pre-step state key; resumable equality only for single-round schedule-free steps as the statement says; findings F-C09-1..3 open'),
 'C10': ('trace and observation equality between an instance and its identically driven twin in differently pre-filled, differently placed storage; copy continues like the original; simulator same-seed-twice hash', '9 C10',
         'differential exploration: four arena fill patterns, relocation on restart, copy at arbitrary operations, death of the original, built-in and scripted generators',
         'finding F-C10-1 (copies share the built-in generator) open'),
 'C11': ('AddressSanitizer + UBSan build with poisoned red zones around the instance and serial buffers; library assertions routed to a handler (hook) -- the first hit ends the run and is reported; allocation counters (operator new, --wrap=malloc) in the plain build; arena guard bytes; model-free structural oracles (well-formed configuration, lifecycle balance against the registry, task links, pool, payload intact) as detectors of corruption that stays inside the instance', '9 C11',
         'exploration under sanitizers of the C01 workload plus bursts beyond the queue capacity, appends beyond task capacity, copies used after the original died',
         'within the documented preconditions enforced by the generator; findings F-C11-1..6 open (each an assertion trip reachable through the public API)'),
 'C12': ('exact-arithmetic (long double) argmax / cumulative-interval model with float-rounding slack, fed the scripted rank()/utility() returns and generator outputs incl. 0, 1-2^-24, k/8 and their neighbours; one draw per random region resolved', '9 C12',
         'refinement of utilize / randomize / change-into-Utilitarian/Random steps on shapes nesting such regions in composite and orthogonal regions',
         'candidates within 1e-6 relative of the maximum / 4 ulp of an interval boundary are accepted (float rounding); headless regions below Utilitarian/Random regions are excluded by the shape generator'),
 'C13': ('activeSubState agreement after every op and inside callbacks; idle => all pending predicates false; isResumable(s) => resume(region) on a scratch copy activates s; inside guards of single-request single-round steps the pending sets equal the states then entered / exited', '9 C13',
         'exploration on shapes with and without orthogonal regions (both registry specialisations)',
         'findings F-C13-1..4 open: only predicates outside the documented patterns are reported'),
 'C14': ('unique payload per request / task: guards see it on the pending transition, enter callbacks find only approved requests in currentTransitions(), update callbacks read through lastTransition() what lastTransitionTo() reported, every payload seen anywhere is attributable to a request for that destination, over-aligned payload intact and aligned', '9 C14',
         'exploration with int and 32-byte over-aligned payloads, mixed batches, plan payloads',
         'payload-less plan execution is covered by C06'),
 'C15': ('feature-set twins run in lock-step inside one binary (full vs nolog, verbose, plans-only, serialization+history, minimal, minimal+utility, big payload, substitution limits 1/2, task capacities 1/3, peer types); header flavour (development/ headers) and compiler (g++) twins are separate binaries compared by per-run trace digest on the same seeds', '9 C15',
         'differential exploration across builds restricted to the common feature subset',
         'a configuration that no longer compiles is reported as a violation; sizeof and feature-specific records are not compared'),
 'C16': ('logger stream vs the callbacks\' own trace (methods, transitions, cancellations, task and plan statuses, select/random resolutions), silent while detached, logger-less twin behaves identically; structure()[i].isActive == isActive(i) after every op; activityHistory all-or-none saturating step model incl. 150-320 tick runs', '9 C16 / Appendix C',
         'exploration with attach/detach at arbitrary operations in interface and verbose logging modes',
         'extra transition records are accepted only with a region head as origin (plan execution)'),
 'C19': ('pool invariants through the probe after every operation inside whole-system plan workloads: count = live slots, vacant chain from head to tail disjoint from live slots and acyclic, full <=> no vacant list, lengths add up; contents via the C07 model; request/transition arrays observed through requests()/pendingTransitions()/previousTransitions(); bulk append: previousTransitions() equals the concatenation of the approved rounds\' pending lists (order, count, contents) whenever every round was observed', '9 C19',
         'exploration at task capacities 1, 3 and default with dense insert/remove/clear across regions (recycle / grow / last / full branches, probes in the evidence)',
         'capacities are those of the compiled shapes, not every capacity'),
}
checks = []
for pid in sorted(C):
    technique, ref, text, note = C[pid]
    checks.append({
        'property_id': pid,
        'quick_cmd': 'bin/vcheck check %s --tier quick' % pid,
        'thorough_cmd': 'bin/vcheck check %s --tier thorough' % pid,
        'evidence_file': 'evidence/%s.json' % pid,
        'replay_cmd_template': 'bin/vcheck replay {path}',
        'engine': 'sim',
        'level_claimed': {'category': 'exploration', 'text': text, 'design_ref': 'DESIGN.md section ' + ref},
        'level_note': note,
        'technique': TECH + technique,
    })
m = {
 'version': 1,
 'setup_cmd': 'bin/vcheck build --tier quick',
 'hooks': {
  'guard': 'HFSM2_VERIF',
  'enable': '-DHFSM2_VERIF (defined by sim/node.hpp) together with HFSM2_ENABLE_ASSERT on every node translation unit built by bin/vcheck',
  'baseline_off_cmd': 'cmake -G Ninja -B /repo/_build -S /repo -DHFSM2_BUILD_TESTS=ON -DCMAKE_CXX_FLAGS=-Wno-error && cmake --build /repo/_build && ctest --test-dir /repo/_build -j8 --timeout 900',
  'source_commits': ['50ad2ea'],
  'add_only': True,
 },
 'engines': [{'name': 'sim', 'path': 'sim/', 'serves_properties': sorted(C), 'kind_free_text': 'single-process deterministic simulator: one PRNG (VERIF_SEED) decides world parameters, operations, behaviour cards, resolver returns, random numbers, message drops/duplicates/delays, crash points; real HFSM2 instances of generated shapes behind a type-erased node interface; reference model in sim/model.cpp; ddmin minimisation; fresh-process replay gate in bin/vcheck'}],
 'checks': checks,
 'notes': 'Known findings (genuine defects not repaired) and repaired ones are listed in known_findings.json; reproducers under findings/. Seeded breaking changes and which checks catch them: seeded/ and DESIGN.md.',
 'not_applicable': [
  {'property_id': 'C17', 'reason': 'compile-time pure function of the declared structure: no schedule, fault, history or run-time input for a simulation to vary (generated shapes static_assert ids/counts only as a by-product); DESIGN.md section 10'},
  {'property_id': 'C18', 'reason': 'bit arrays/streams are pure functions of their arguments; the simulated system reaches only widths <= 8 bits through save/load and cannot decide the statement; DESIGN.md section 10'},
  {'property_id': 'C20', 'reason': 'bundled generators are pure functions of the seed; nothing to schedule or fault, the simulator replaces the generator behind its seam; DESIGN.md section 10'},
 ],
}
json.dump(m, open(os.path.join(V, 'MANIFEST.json'), 'w'), indent=1)
print('wrote MANIFEST.json with', len(checks), 'checks')
