#!/usr/bin/env python3
"""Shape portfolio for the HFSM2 simulator.

A shape is a machine structure.  It is written in a tiny DSL:

    X[ a, b, ... ]   region with a head state; X in C R S U N O
                     (Composite Resumable Selectable Utilitarian raNdom Orthogonal)
    Xp[ ... ]        headless ("Peers") region
    _                leaf state
    ^ suffix         state (leaf or region head) declared as FSM::StateT<Inj<..>>

From one DSL string this module derives, by its own depth-first walk (independent of the
library's type-list arithmetic), the state ids, region ids, parents, prongs, widths and the
published counts, and emits a C++ header with
  * VF_FSM_DECL(M)      the FSM type expression over St<N>
  * VF_STATES[]         the descriptor table the engine and the reference model interpret
  * VF_STATIC_CHECKS    static_asserts of ids/counts against the library (by-product, C17)
"""
import json, random, sys, os

STRATS = {'C': 0, 'R': 1, 'S': 2, 'U': 3, 'N': 4, 'O': 5}
STRAT_NAMES = {'C': 'Composite', 'R': 'Resumable', 'S': 'Selectable', 'U': 'Utilitarian', 'N': 'Random', 'O': 'Orthogonal'}

FIXED = {
    # no orthogonal region at all: second RegistryT specialisation
    's_basic':   'C[_, C[_,_], R[_,_,_]]',
    # the repo's own replication fixture
    's_repl':    'Cp[C[_, C[_,_]], O[C[_,_], C[_,_]]]',
    # all five strategies as nested regions
    's_strat':   'C[R[_,_,_], S[_,_,_], U[_,_,_], N[_,_,_], C[_,_]]',
    # regions as selected / utilised / drawn sub-states
    's_selreg':  'S[_, C[_,_], R[_,_], U[C[_,_], _, O[_,_]]]',
    # orthogonal root, leaf child beside regions
    's_oroot':   'O[C[_,_], R[_,_,_], _]',
    # orthogonal regions whose children are leaves (consume among leaf siblings)
    's_oleaf':   'C[O[_,_,_], _, O[_, C[_,_], _]]',
    # depth 4, orthogonal inside composite inside orthogonal
    's_deep':    'C[C[C[C[_,_],_],_], O[C[O[_, C[_,_]], _], _]]',
    # odd widths (balanced LHalf/RHalf split), orthogonal widths 8 and 9
    's_wide':    'C[C[_,_,_,_,_], R[_,_,_,_,_,_,_], C[_,_,_,_,_,_,_,_,_], Op[_,_,_,_,_,_,_,_], O[_,_,_,_,_,_,_,_,_]]',
    # headless everything
    's_peers':   'Cp[Rp[_,_], Cp[_,_,_], Op[Cp[_,_], _]]',
    # StateT<> injections
    's_inject':  'C^[_^, C^[_^,_], O^[_^,_]]',
    # utility / random nested inside composite and orthogonal regions
    's_util':    'U[N[_,_,_], O[U[_,_], N[_,_]], C[_,_], _]',
    # plan-owning regions at several depths and under an orthogonal region
    's_plans':   'C[C[_,_,_], O[C[_,_], C[_,_]], R[_,_]]',
    # random root: the initial activation draws
    's_nroot':   'N[_, _, C[_,_]]',
    # the last orthogonal region has exactly 8 sub-states (bit view of width 8 at the end of the storage)
    's_o8':      'C[_, C[_,_], Op[_,_,_,_,_,_,_,_]]',
    # resumable / selectable / composite regions resolved through a utilitarian or random parent
    's_ures':    'U[R[_,_,_], N[R[_,_], S[_,_,_], _], C[_,R[_,_,_]], _]',
    # two composite levels between an orthogonal region and region destinations (the third ancestor loop of requestImmediate meets an orthogonal region)
    's_occ':     'O[C[_, C[_, R[_,_], C[_,_]]], C[_, O[C[_, C[_,_]], _]]]',
    # orthogonal regions whose width is not a power of two next to regions with the same head: mathematically tied utilities (mean of 3 or 5 equal members vs one member)
    's_tie':     'U[O[_,_,_], C[_,_], O[_,_,_,_,_], N[O[_,_,_],_]]',
}


class Node:
    def __init__(self, strat, headless, inj, kids):
        self.strat, self.headless, self.inj, self.kids = strat, headless, inj, kids
        self.id = self.parent = self.prong = self.region = None


def parse(s):
    s = s.replace(' ', '')
    pos = [0]

    def peek():
        return s[pos[0]] if pos[0] < len(s) else ''

    def node():
        c = peek()
        if c == '_':
            pos[0] += 1
            inj = False
            if peek() == '^':
                inj = True; pos[0] += 1
            return Node(None, False, inj, [])
        assert c in STRATS, (s, pos[0])
        pos[0] += 1
        headless = inj = False
        if peek() == 'p':
            headless = True; pos[0] += 1
        if peek() == '^':
            inj = True; pos[0] += 1
        assert peek() == '['; pos[0] += 1
        kids = [node()]
        while peek() == ',':
            pos[0] += 1
            kids.append(node())
        assert peek() == ']', (s, pos[0]); pos[0] += 1
        assert not (headless and inj)
        return Node(c, headless, inj, kids)

    n = node()
    assert pos[0] == len(s), (s, pos[0])
    assert n.strat is not None, "root must be a region"
    return n


def number(root):
    """Independent DFS: ids, parents, prongs, region ids, sizes."""
    states, regions = [], []

    def walk(n, parent, prong):
        n.id = len(states); n.parent = parent; n.prong = prong
        states.append(n)
        if n.strat is not None:
            n.region = len(regions); regions.append(n)
            for i, k in enumerate(n.kids):
                walk(k, n.id, i)
        n.size = len(states) - n.id

    walk(root, -1, -1)
    return states, regions


def counts(states, regions):
    compo = [r for r in regions if r.strat != 'O']
    ortho = [r for r in regions if r.strat == 'O']
    def bit_contain(v):
        b = 0
        while (1 << b) < v: b += 1
        return b
    active_bits = sum(bit_contain(len(r.kids)) for r in compo)
    resum_bits = sum(bit_contain(len(r.kids)) + 1 for r in compo)
    return dict(
        STATE_COUNT=len(states), REGION_COUNT=len(regions), COMPO_COUNT=len(compo),
        COMPO_PRONGS=sum(len(r.kids) for r in compo), ORTHO_COUNT=len(ortho),
        ORTHO_UNITS=sum((len(r.kids) + 7) // 8 for r in ortho),
        SERIAL_BITS=1 + active_bits + resum_bits,
        TASK_CAPACITY=2 * sum(len(r.kids) for r in compo))


def fsm_expr(n, root=True):
    if n.strat is None:
        return 'St<%d>' % n.id
    kids = ', '.join(fsm_expr(k, False) for k in n.kids)
    name = STRAT_NAMES[n.strat]
    if root:
        if n.headless:
            rn = {'C': 'PeerRoot'}.get(n.strat, name + 'PeerRoot')
            return 'typename M::template %s<%s>' % (rn, kids)
        rn = {'C': 'Root'}.get(n.strat, name + 'Root')
        return 'typename M::template %s<St<%d>, %s>' % (rn, n.id, kids)
    if n.headless:
        return 'typename M::template %sPeers<%s>' % (name, kids)
    return 'typename M::template %s<St<%d>, %s>' % (name, n.id, kids)


def valid(root, serialization=True):
    """Restrictions that keep generated shapes inside what the properties talk about."""
    states, regions = number(root)
    if not any(r.strat != 'O' for r in regions):
        return False                      # library needs >= 1 composite region
    for r in regions:
        if r.strat != 'O' and len(r.kids) < 2:
            return False                  # width-1 composite: WIDTH_BITS == 0 with serialization
        if r.headless and r.strat in ('S', 'U', 'N'):
            return False                  # headless head has no select()/utility() to consult
        if r.strat in ('U', 'N'):
            for k in r.kids:
                if k.strat is not None and k.headless:
                    return False          # anonymous head reports utility 0: statement is silent
        if r.strat == 'O':
            for k in r.kids:
                pass
    # headless regions below a Utilitarian/Random ancestor report utility 0 through the chain
    def under_util(n, flag):
        if n.strat is not None:
            if flag and n.headless:
                return False
            f = flag or n.strat in ('U', 'N')
            return all(under_util(k, f) for k in n.kids)
        return True
    if not under_util(root, False):
        return False
    return len(states) <= 48


def random_shape(rng, max_states=28, max_depth=4):
    def gen(depth, budget, top=False):
        if not top and (depth >= max_depth or budget[0] < 3 or rng.random() < 0.45):
            budget[0] -= 1
            return '_' + ('^' if rng.random() < 0.08 else '')
        strat = rng.choice('CCCRRSUNOO')
        headless = rng.random() < 0.2 and strat in 'CRO'
        inj = (not headless) and rng.random() < 0.08
        width = rng.choice([2, 2, 2, 3, 3, 4, 5])
        budget[0] -= 1
        kids = [gen(depth + 1, budget) for _ in range(width)]
        return strat + ('p' if headless else '') + ('^' if inj else '') + '[' + ','.join(kids) + ']'
    for _ in range(1000):
        s = gen(0, [max_states], True)
        try:
            if valid(parse(s)):
                return s
        except AssertionError:
            pass
    return FIXED['s_basic']


def emit(name, dsl, out):
    root = parse(dsl)
    assert valid(root), dsl
    states, regions = number(root)
    c = counts(states, regions)
    uses_utility = any(r.strat in ('U', 'N') for r in regions)
    has_ortho = any(r.strat == 'O' for r in regions)
    L = []
    L.append('// generated by gen/shapes.py from %r -- do not edit' % dsl)
    L.append('#define VF_SHAPE_NAME "%s"' % name)
    L.append('#define VF_SHAPE_DSL "%s"' % dsl)
    L.append('#define VF_SHAPE_USES_UTILITY %d' % (1 if uses_utility else 0))
    L.append('#define VF_SHAPE_HAS_ORTHO %d' % (1 if has_ortho else 0))
    L.append('#define VF_STATE_COUNT %d' % len(states))
    L.append('#define VF_REGION_COUNT %d' % len(regions))
    L.append('#define VF_FSM_TYPE(M) %s' % fsm_expr(root))
    # headed states get a St<N> definition; injected ones a different base
    headed = [s for s in states if not (s.strat is not None and s.headless)]
    L.append('#define VF_FOR_EACH_STATE(X) ' + ' '.join('X(%d)' % s.id for s in headed))
    L.append('#define VF_FOR_EACH_HEADED_REGION(X) ' + ' '.join('X(%d, %d)' % (s.region, s.id) for s in headed if s.strat is not None))     # (region id, id of its head state)
    L.append('#define VF_INJECTED(N) (' + ' || '.join(['false'] + ['N == %d' % s.id for s in headed if s.inj]) + ')')
    L.append('#define VF_STATE_TABLE \\')
    for s in states:
        kind = 0 if s.strat is None else (2 if s.strat == 'O' else 1)
        strat = 0 if s.strat is None else STRATS[s.strat]
        L.append('  {%d, %d, %d, %d, %d, %d, %d, %d, %d, %d}, \\' % (
            s.id, s.parent, s.prong, kind, strat, 1 if s.headless else 0,
            len(s.kids), -1 if s.region is None else s.region, s.size, 1 if s.inj else 0))
    L.append('')
    L.append('#define VF_STATIC_CHECKS(FSM) \\')
    for s in headed:
        L.append('  static_assert(FSM::template stateId<St<%d>>() == %d, "state id"); \\' % (s.id, s.id))
    for r in regions:
        if not r.headless:
            L.append('  static_assert(FSM::template regionId<St<%d>>() == %d, "region id"); \\' % (r.id, r.region))
    for k in ('STATE_COUNT', 'REGION_COUNT', 'COMPO_COUNT', 'COMPO_PRONGS', 'ORTHO_COUNT', 'ORTHO_UNITS'):
        L.append('  static_assert(FSM::Instance::Info::%s == %d, "%s"); \\' % (k, c[k], k))
    L.append('  static_assert(true, "")')
    L.append('#define VF_EXPECT_SERIAL_BITS %d' % c['SERIAL_BITS'])
    L.append('#define VF_EXPECT_TASK_CAPACITY %d' % c['TASK_CAPACITY'])
    L.append('#define VF_COMPO_COUNT %d' % c['COMPO_COUNT'])
    L.append('')
    with open(out, 'w') as f:
        f.write('\n'.join(L))
    return dict(name=name, dsl=dsl, uses_utility=uses_utility, has_ortho=has_ortho, **c)


def portfolio(seed=None, extra=0):
    shapes = dict(FIXED)
    if seed is not None and extra > 0:
        rng = random.Random(seed)
        for i in range(extra):
            shapes['r%d_%d' % (seed % 100000, i)] = random_shape(rng)
    return shapes


if __name__ == '__main__':
    outdir = sys.argv[1]
    seed = int(sys.argv[2]) if len(sys.argv) > 2 else None
    extra = int(sys.argv[3]) if len(sys.argv) > 3 else 0
    os.makedirs(outdir, exist_ok=True)
    meta = []
    for name, dsl in portfolio(seed, extra).items():
        meta.append(emit(name, dsl, os.path.join(outdir, 'shape_%s.hpp' % name)))
    json.dump(meta, open(os.path.join(outdir, 'shapes.json'), 'w'), indent=1)
    print('%d shapes' % len(meta))
