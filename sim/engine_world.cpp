// engine_world.cpp -- the world: roles, client operations, observation, model-free per-node oracles.
#include "engine.hpp"
#include "model.hpp"
#include <algorithm>
#include <cstdio>
#include <cstdlib>

namespace vf {

const NodeFactory* findFactory(const std::string& shape, const std::string& config) {
	for (auto& f : factories()) if (shape == f.shape && config == f.config) return &f;
	return nullptr;
}

std::string propertyOf(const std::string& oracle) { return oracle.substr(0, oracle.find('.')); }

World::World(const RunPlan& p, Coverage* c) : plan(p), lens(p.lens), cov(c), netRng(mix64(p.seed, 0x6e6574)) {}

World::~World() {
	g_assertSink = &asserts;
	for (auto& s : slots) {
		if (s.node && s.node->alive()) {
			if (s.h) { s.h->mute = true; }
			s.node->destroy();
		}
	}
	g_assertSink = nullptr;
}

// Under the memory-safety lens the model-free structural oracles of C01 / C03 / C07 / C19 / C14 run as corruption detectors: an out-of-bounds write
// that stays inside the instance is invisible to the sanitizers but shows as a registry that disagrees with the callbacks delivered, a malformed
// configuration, broken task links or a damaged payload.
static bool corruptionDetector(const std::string& oracle) {
	return oracle == "C01.wellformed" || oracle == "C03.balance" || oracle == "C03.lifecycle" || oracle == "C07.links" || oracle == "C19.pool" || oracle == "C14.intact";
}
bool World::wants(const char* prop) const {
	if (lens == "ALL" || lens == prop) return true;
	if (lens == "C11") { const std::string p(prop); return p == "C01" || p == "C03" || p == "C07" || p == "C19" || p == "C14"; }
	return false;
}

void World::violate(const std::string& oracle, const std::string& detail, int node, const std::string& tag) {
	if (!wants(propertyOf(oracle).c_str())) return;
	const bool borrowed = lens == "C11" && propertyOf(oracle) != "C11";
	if (borrowed && !corruptionDetector(oracle)) return;
	if (result.violations.size() >= 8) return;
	const std::string& t2 = tag.empty() ? circumstance : tag;
	if (!t2.empty() && plan.wp.avoid.count(t2)) { probe(("known:" + tag).c_str()); return; }   // documented finding, announced by its reproducer
	Violation v; v.oracle = borrowed ? "C11.corruption" : oracle; v.detail = borrowed ? "internal state corrupted [" + oracle + "] " + detail : detail; v.tag = t2; v.opIndex = opIndex; v.node = node;
	result.violations.push_back(v);
}

int World::addSlot(const NodeFactory& f, const std::string& role, int fill) {
	Slot s;
	s.node.reset(f.make());
	s.h.reset(new Harness);
	s.h->world = this; s.h->index = int(slots.size()); s.h->role = role; s.h->node = s.node.get(); s.h->shape = f.desc;
	s.h->entered.assign(size_t(f.desc->n), 0);
	s.h->respectQueue = !plan.wp.allowOverflow;
	s.node->setSaveFill(uint8_t(0x31 + 0x4D * slots.size()));
	s.arena.reset(new Arena);
	s.arena->make(s.node->instanceSize(), s.node->instanceAlign(), fill, mix64(plan.seed, uint64_t(slots.size()) + 77));
	slots.push_back(std::move(s));
	return int(slots.size()) - 1;
}

void World::constructNode(int i, bool withLogger) {
	Slot& s = slots[size_t(i)];
	Harness& h = *s.h;
	static const Op ctorOp = [] { Op o; o.kind = OP_ENTER; return o; }();
	h.beginOp(h.op ? h.op : &ctorOp);
	h.loggerOn = withLogger && (s.node->caps() & CAP_LOG);
	const bool automatic = !(s.node->caps() & CAP_MANUAL);
	h.inActivation = automatic;
	s.node->construct(s.arena->base, &h, h.loggerOn);
	h.inActivation = false;
	s.expectActivated = automatic;
}

bool World::setup(std::string& err) {
	const NodeFactory* fa = findFactory(plan.wp.shape, plan.wp.config);
	if (!fa) { err = "no factory for " + plan.wp.shape + "/" + plan.wp.config; return false; }
	g_assertSink = &asserts;
	iA = addSlot(*fa, "A", plan.wp.fillA);
	if (plan.wp.twin) iT = addSlot(*fa, "T", plan.wp.fillT);
	if (!plan.wp.twinConfig.empty()) {
		const NodeFactory* fb = findFactory(plan.wp.shape, plan.wp.twinConfig);
		if (!fb) { err = "no factory for build twin " + plan.wp.twinConfig; return false; }
		iB = addSlot(*fb, "B", 2);
	}
	const NodeFactory* ff = fa;
	if (!plan.wp.peerConfig.empty()) {
		ff = findFactory(plan.wp.shape, plan.wp.peerConfig);
		if (!ff) { err = "no factory for peer " + plan.wp.peerConfig; return false; }
	}
	for (int k = 0; k < plan.wp.followers; ++k) followers.push_back(addSlot(*ff, "F" + std::to_string(k), 3));
	return true;
}

// ---- observation ------------------------------------------------------------------------------------------

void World::observe(int i) {
	Slot& s = slots[size_t(i)];
	Obs& o = s.obs;
	o = Obs{};
	if (!s.node || !s.node->alive()) return;
	const Shape& sh = s.node->shape();
	const INode& n = *s.node;
	o.alive = true;
	o.activated = n.activated();
	o.active.resize(size_t(sh.n)); o.resumable.resize(size_t(sh.n)); o.sub.resize(size_t(sh.n));
	for (int k = 0; k < sh.n; ++k) {
		o.active[size_t(k)] = n.isActive(k);
		o.resumable[size_t(k)] = n.isResumable(k);
		o.sub[size_t(k)] = int8_t(sh.isCompo(k) ? n.activeSubState(k) : -1);
	}
	const uint32_t caps = n.caps();
	if (caps & CAP_REPORT) {
		o.structure.resize(size_t(sh.n)); o.activity.resize(size_t(sh.n));
		for (int k = 0; k < sh.n; ++k) { o.structure[size_t(k)] = n.structureActive(k); o.activity[size_t(k)] = int16_t(n.activity(k)); }
	}
	n.requests(o.queued);
	if (caps & CAP_HISTORY) {
		n.previous(o.prev);
		o.lastTo.assign(size_t(sh.n), -1);
		if (o.activated) for (int k = 0; k < sh.n; ++k) { Tr t; o.lastTo[size_t(k)] = n.lastTransitionTo(k, t); }
	}
	if (caps & CAP_PLANS) {
		o.plans.resize(size_t(sh.nRegions));
		for (int r = 0; r < sh.nRegions; ++r) n.planRead(r, o.plans[size_t(r)]);
	}
}

// ---- one client operation on one node ---------------------------------------------------------------------------

static bool clientOp(int k) { return k <= OP_LOGGER; }

void World::apply(int i, const Op& op) {
	Slot& s = slots[size_t(i)];
	INode& n = *s.node;
	Harness& h = *s.h;
	const uint32_t caps = n.caps() & plan.wp.featureMask;
	// every call that exists in a templated (changeTo<State>()) and an id-based (changeTo(id)) flavour uses one or the other for the whole operation,
	// decided by the operation's uid: the same on every node that executes it, unchanged by minimisation and replay
	{ const bool typed = ((mix64(0x7e57ed, op.uid) >> 5) & 1) != 0; n.useTyped(typed); if (typed && i == 0) probe("op_through_templated_api"); }
	h.beginOp(&op);
	{ Ev e; e.k = EV_API; e.a = op.kind; h.push(e); }
	const bool act = s.expectActivated;
	const Shape& sh = n.shape();
	s.stepped = false;
	auto validState = [&](int x) { return x >= 0 && x < sh.n; };
	switch (op.kind) {
	case OP_UPDATE: if (act) { n.update(); s.stepped = true; } break;
	case OP_REACT:  if (act) { n.react(op.a); s.stepped = true; } break;
	case OP_QUERY:  if (act) n.query(0); break;
	case OP_REQUEST: case OP_IMMEDIATE: {
		if (!act || !validState(op.b)) break;
		if ((op.a == K_UTILIZE || op.a == K_RANDOMIZE) && !(caps & CAP_UTILITY)) break;
		if (op.kind == OP_IMMEDIATE && op.a == K_SCHEDULE) break;
		if (h.respectQueue) {
			std::vector<Tr> q; n.requests(q);
			if (int(q.size()) >= sh.compoCount) { Ev e; e.k = EV_SKIP; e.a = op.a; e.b = op.b; h.push(e); probe("queue_full_skip"); break; }
		}
		const bool wp = op.withPayload && (caps & CAP_PAYLOAD);
		Ev e; e.k = EV_ISSUE; e.state = -1; e.a = op.a; e.b = op.b; e.hasP = wp; e.p = wp ? op.payload : 0; h.push(e);
		if (op.kind == OP_REQUEST) n.request(op.a, op.b, wp ? &op.payload : nullptr);
		else { n.immediate(op.a, op.b, wp ? &op.payload : nullptr); s.stepped = true; }
		break; }
	case OP_SUCCEED: case OP_FAIL:
		if (!act || !(caps & CAP_PLANS) || op.a <= 0 || op.a >= sh.n) break;
		if (plan.wp.avoid.count("status_mark_on_inactive_state") && !n.isActive(op.a)) break;
		{ Ev e; e.k = op.kind == OP_SUCCEED ? EV_SUCCEED : EV_FAIL; e.state = -1; e.a = op.a; h.push(e); }
		if (op.kind == OP_SUCCEED) n.succeed(op.a); else n.fail(op.a);
		s.extSuccess.resize(size_t(sh.n), 0); s.extFailure.resize(size_t(sh.n), 0);
		(op.kind == OP_SUCCEED ? s.extSuccess : s.extFailure)[size_t(op.a)] = 1;
		break;
	case OP_PLAN_APPEND: {
		if (!act || !(caps & CAP_PLANS) || op.a < 0 || op.a >= sh.nRegions || !validState(op.c) || !validState(op.d)) break;
		if ((op.b == K_UTILIZE || op.b == K_RANDOMIZE) && !(caps & CAP_UTILITY)) break;
		if (plan.wp.maxTasks >= 0) { PlanProbe pp; n.probePlans(pp); if (pp.count >= plan.wp.maxTasks) break; }
		const bool wp = op.withPayload && (caps & CAP_PAYLOAD);
		const bool ok = n.planAppend(op.a, op.b, op.c, op.d, wp ? &op.payload : nullptr);
		Ev e; e.k = EV_PLAN_EDIT; e.state = -1; e.a = A_PLAN_APPEND | (op.a << 8) | (int(op.b) << 16); e.b = op.c; e.c = op.d | (ok ? 0x10000 : 0); e.hasP = wp; e.p = wp ? op.payload : 0; h.push(e);
		break; }
	case OP_PLAN_CLEAR:
		if (!act || !(caps & CAP_PLANS) || op.a < 0 || op.a >= sh.nRegions) break;
		n.planClear(op.a);
		{ Ev e; e.k = EV_PLAN_EDIT; e.state = -1; e.a = A_PLAN_CLEAR | (op.a << 8); h.push(e); }
		break;
	case OP_PLAN_REMOVE: {
		if (!act || !(caps & CAP_PLANS) || op.a < 0 || op.a >= sh.nRegions) break;
		const bool ok = n.planRemoveAt(op.a, op.b);
		Ev e; e.k = EV_PLAN_EDIT; e.state = -1; e.a = A_PLAN_REMOVE | (op.a << 8); e.b = op.b; e.c = ok; h.push(e);
		break; }
	case OP_RESET: if (act) { n.reset(); s.stepped = true; } break;
	case OP_ENTER:
		if (!act && (n.caps() & CAP_MANUAL)) { h.inActivation = true; n.enter(); h.inActivation = false; s.expectActivated = true; s.stepped = true; }
		break;
	case OP_EXIT:
		if (act && (n.caps() & CAP_MANUAL)) { n.exit(); s.expectActivated = false; s.stepped = true; }
		break;
	case OP_LOGGER:
		if (n.caps() & CAP_LOG) {
			const bool on = op.a != 0;
			if (i == iT && !plan.wp.twinLogger) break;
			n.attachLogger(on); h.loggerOn = on;
		}
		break;
	default: break;
	}
	if (cov && collect) { cov->callbacks += long(h.trace.size()); }
}

// ---- C01: well-formedness ------------------------------------------------------------------------------------------

template <typename FA, typename FS>
static std::string wellFormedError(const Shape& sh, FA isActive, FS sub, int expectRoot /* -1 unknown */) {
	char b[160];
	const bool root = isActive(0);
	if (expectRoot >= 0 && root != (expectRoot != 0)) { std::snprintf(b, sizeof b, "root active=%d but machine activated=%d", int(root), expectRoot); return b; }
	for (int s = 1; s < sh.n; ++s)
		if (isActive(s) && !isActive(sh.st[s].parent)) { std::snprintf(b, sizeof b, "state %d active while its parent %d is not", s, sh.st[s].parent); return b; }
	for (int r = 0; r < sh.n; ++r) {
		if (!sh.isRegion(r)) continue;
		int count = 0, which = -1;
		for (int k = 0; k < sh.st[r].width; ++k) if (isActive(sh.kids[r][size_t(k)])) { ++count; which = k; }
		if (sh.isCompo(r)) {
			const int a = sub(r);
			if (isActive(r)) {
				if (count != 1) { std::snprintf(b, sizeof b, "active composite region %d has %d active sub-states", r, count); return b; }
				if (a != which) { std::snprintf(b, sizeof b, "activeSubState(%d)=%d but active sub-state is prong %d", r, a, which); return b; }
			} else {
				if (a != -1) { std::snprintf(b, sizeof b, "inactive region %d reports activeSubState %d", r, a); return b; }
			}
		} else if (isActive(r) && count != sh.st[r].width) {
			std::snprintf(b, sizeof b, "active orthogonal region %d has %d of %d sub-states active", r, count, sh.st[r].width); return b;
		}
	}
	return "";
}

void World::checkWellFormed(int i, const char* oracle) {
	Slot& s = slots[size_t(i)];
	if (!s.obs.alive) return;
	const Shape& sh = s.node->shape();
	const Obs& o = s.obs;
	const std::string err = wellFormedError(sh, [&](int k) { return o.active[size_t(k)] != 0; }, [&](int k) { return int(o.sub[size_t(k)]); }, s.expectActivated ? 1 : 0);
	checked(oracle);
	if (!err.empty()) violate(oracle, s.h->role + ": " + err, i);
}

void World::inCallbackProbes(Harness& h, int state, int method, ICtl& ctl) {
	(void) state;
	if (!(wants("C01") || wants("C13"))) return;
	const bool inScope = method == M_PRE_UPDATE || method == M_UPDATE || method == M_POST_UPDATE || method == M_PRE_REACT || method == M_REACT ||
	                     method == M_POST_REACT || method == M_QUERY || method == M_ENTRY_GUARD || method == M_EXIT_GUARD;
	if (!inScope) return;
	// sample: every callback for small shapes, every third otherwise
	if (h.shape->n > 20 && (h.cbCount % 3) != 0) return;
	const std::string err = wellFormedError(*h.shape, [&](int k) { return ctl.isActive(k); }, [&](int k) { return ctl.activeSubState(k); }, -1);
	checked("C01.wellformed_cb");
	if (!err.empty()) {
		violate("C01.wellformed_cb", h.role + " inside " + methodName(method) + " of state " + std::to_string(state) + ": " + err, h.index);
		violate("C13.subactive_cb", h.role + " inside " + methodName(method) + " of state " + std::to_string(state) + ": " + err, h.index);
	}
}

// ---- C03: lifecycle automaton over the trace ---------------------------------------------------------------------------

void World::checkLifecycle(Harness& h, const Ev& e, const void* self) {
	if (!wants("C03")) return;
	const Shape& sh = *h.shape;
	const int s = e.state;
	char b[200];
	checked("C03.lifecycle");
	// identity: the callback runs on the object access<State>() returns, inside the instance
	const void* expect = h.node->alive() ? h.node->stateAddress(s) : nullptr;
	Slot& slot = slots[size_t(h.index)];
	if (h.node->alive()) {
		if (self != expect) { std::snprintf(b, sizeof b, "%s: %s of state %d ran on %p, access<>() gives %p", h.role.c_str(), methodName(e.method), s, self, expect); violate("C03.this", b, h.index); }
		if (!slot.arena->contains(self)) { std::snprintf(b, sizeof b, "%s: %s of state %d ran on an object outside the instance", h.role.c_str(), methodName(e.method), s); violate("C03.this", b, h.index); }
	}
	auto headedParentEntered = [&](int x) {
		for (int p = sh.st[x].parent; p >= 0; p = sh.st[p].parent)
			if (!sh.st[p].headless) return h.entered[size_t(p)] != 0;
		return true;
	};
	switch (e.method) {
	case M_ENTER:
		if (h.entered[size_t(s)]) { std::snprintf(b, sizeof b, "%s: enter delivered to state %d which is already entered", h.role.c_str(), s); violate("C03.lifecycle", b, h.index); }
		if (!headedParentEntered(s)) { std::snprintf(b, sizeof b, "%s: state %d entered before its parent", h.role.c_str(), s); violate("C03.lifecycle", b, h.index); }
		h.entered[size_t(s)] = 1;
		break;
	case M_EXIT: {
		if (!h.entered[size_t(s)]) { std::snprintf(b, sizeof b, "%s: exit delivered to state %d which is not entered", h.role.c_str(), s); violate("C03.lifecycle", b, h.index); }
		for (int k = s + 1; k < s + sh.st[s].size; ++k)
			if (h.entered[size_t(k)]) { std::snprintf(b, sizeof b, "%s: state %d exited while its descendant %d is still entered", h.role.c_str(), s, k); violate("C03.lifecycle", b, h.index); break; }
		h.entered[size_t(s)] = 0;
		break; }
	case M_REENTER: case M_PRE_UPDATE: case M_UPDATE: case M_POST_UPDATE: case M_PRE_REACT: case M_REACT: case M_POST_REACT: case M_QUERY:
	case M_EXIT_GUARD: case M_PLAN_SUCCEEDED: case M_PLAN_FAILED:
		if (!h.entered[size_t(s)]) { std::snprintf(b, sizeof b, "%s: %s delivered to state %d which is not entered", h.role.c_str(), methodName(e.method), s); violate("C03.lifecycle", b, h.index); }
		break;
	default: break;
	}
}

// ---- C11: assertions, allocations, red zones ----------------------------------------------------------------------------

void World::checkAsserts(int i, const Op& op) {
	(void) op;
	Slot& s = slots[size_t(i)];
	if (!asserts.empty() && !wants("C11")) {
		// hits the policy let pass (not part of any documented finding): the lens judges what the library did next
		probe("assertion_continued");
		{ std::string e = asserts.front().expr.substr(0, 48); for (auto& ch : e) if (ch == '"' || ch == '\\') ch = '\''; probe("assertion_continued: " + e); }
		asserts.clear();
	}
	if (!asserts.empty()) {
		result.tainted = true; s.tainted = true;
		const AssertHit& a = asserts.front();
		std::string tag;
		if (a.expr.find("_count < CAPACITY") != std::string::npos) tag = "array_overflow";
		if (a.expr.find("_core.requests.count() == 0") != std::string::npos) tag = "substitution_limit_leftover";
		if (a.expr.find("tasksFailures .get(stateId)") != std::string::npos || a.expr.find("tasksSuccesses.get(stateId)") != std::string::npos) tag = "status_mark_on_inactive_state";
		if (a.expr.find("registry.isActive(HEAD_ID)") != std::string::npos && s.h->inActivationSeen && s.h->shape->isOrtho(0)) tag = "activation_request_ortho_root";
		violate("C11.assert", s.h->role + ": library assertion `" + a.expr + "` failed at " + a.file + ":" + std::to_string(a.line) + " during " + opName(op.kind), i, tag);
		checked("C11.assert");
		return;
	}
	checked("C11.assert");
	if (g_libAllocs > 0) {
		violate("C11.alloc", s.h->role + ": " + std::to_string(g_libAllocs) + " dynamic allocation(s) inside a library call during " + opName(op.kind), i);
		g_libAllocs = 0;
	}
	if (s.arena && !s.arena->zonesIntact()) violate("C11.redzone", s.h->role + ": bytes next to the instance were overwritten", i);
}

// ---- C13: idle pending, resume probe ---------------------------------------------------------------------------------------

void World::checkIdlePending(int i) {
	if (!wants("C13")) return;
	Slot& s = slots[size_t(i)];
	if (!s.obs.alive || !s.expectActivated || !s.obs.queued.empty()) return;
	const Shape& sh = s.node->shape();
	checked("C13.idle_pending");
	for (int k = 0; k < sh.n; ++k) {
		const bool pe = s.node->isPendingEnter(k), px = s.node->isPendingExit(k), pc = s.node->isPendingChange(k);
		if (pe || px || pc) {
			char b[200]; std::snprintf(b, sizeof b, "%s: nothing pending, yet state %d reports isPendingEnter=%d isPendingExit=%d isPendingChange=%d", s.h->role.c_str(), k, int(pe), int(px), int(pc));
			const bool known = !pe && (!px || s.obs.active[size_t(k)]);   // documented pattern: change true for states of active regions, exit true for active states, while idle
			violate("C13.idle_pending", b, i, known ? "pending_true_when_idle" : "");
			return;
		}
	}
}

void World::checkResumeProbe(int i) {
	if (!wants("C13")) return;
	Slot& s = slots[size_t(i)];
	if (!s.obs.alive || !s.expectActivated || !s.obs.queued.empty()) return;
	const Shape& sh = s.node->shape();
	// pick (deterministically) one resumable state and resume its region on a scratch copy
	std::vector<int> cands;
	for (int k = 1; k < sh.n; ++k) if (s.obs.resumable[size_t(k)] && sh.isCompo(sh.st[k].parent)) cands.push_back(k);
	if (cands.empty()) return;
	const int c = cands[size_t((opIndex * 7 + i) % int(cands.size()))];
	const int region = sh.st[c].parent;
	const NodeFactory* f = findFactory(sh.name, s.node->config());
	if (!f) return;
	std::unique_ptr<INode> scratch(f->make());
	Harness mh; mh.world = this; mh.index = -1; mh.role = "scratch"; mh.node = scratch.get(); mh.shape = &sh; mh.mute = true;
	mh.entered.assign(size_t(sh.n), 0);
	Arena ar; ar.make(scratch->instanceSize(), scratch->instanceAlign(), 2, 5);
	scratch->copyConstruct(ar.base, *s.node, &mh);
	scratch->attachLogger(false);
	scratch->immediate(K_RESUME, region, nullptr);
	const bool ok = scratch->isActive(c);
	const bool regionActive = scratch->isActive(region);
	scratch->destroy();
	s.node->setHarness(s.h.get());
	checked("C13.resume");
	distinct(mix64(mix64(0xC13, uint64_t(c)), std::hash<std::string>()(sh.name)));
	if (!ok) {
		char b[200]; std::snprintf(b, sizeof b, "%s: isResumable(%d) is true but resume(%d) activated %s", s.h->role.c_str(), c, region, regionActive ? "another sub-state" : "nothing");
		const int rp = sh.st[size_t(region)].parent;
		const bool underOrtho = s.obs.active[size_t(region)] && rp >= 0 && sh.isOrtho(rp);
		violate("C13.resume", b, i, underOrtho ? "active_region_under_ortho_not_retargeted" : "");
	}
}

// ---- C16: logger vs own trace; structure report -------------------------------------------------------------------------------

void World::checkLogger(int i, const Op& op, const Obs& before) {
	(void) before;
	if (!wants("C16")) return;
	Slot& s = slots[size_t(i)];
	Harness& h = *s.h;
	if (!(s.node->caps() & CAP_LOG)) return;
	const Shape& sh = *h.shape;
	const bool verbose = (s.node->caps() & CAP_VERBOSE) != 0;
	std::vector<std::pair<int,int>> logged, called;
	std::vector<Ev> logTr, issued, logCancel, cancels, logTask, tasks;
	for (size_t k = 0; k < h.trace.size(); ++k) {
		const Ev& e = h.trace[k];
		switch (e.k) {
		case EV_LOG_METHOD: if (!(verbose && sh.st[size_t(e.state)].headless)) logged.emplace_back(e.state, e.method); break;
		case EV_CB: called.emplace_back(e.state, e.method); break;
		case EV_LOG_TRANSITION: logTr.push_back(e); break;
		case EV_ISSUE: issued.push_back(e); break;
		case EV_LOG_CANCEL: logCancel.push_back(e); break;
		case EV_CANCEL: cancels.push_back(e); break;
		case EV_LOG_TASK: logTask.push_back(e); break;
		case EV_SUCCEED: case EV_FAIL: tasks.push_back(e); break;
		case EV_DEFAULT: if (e.state > 0) tasks.push_back(e); break;   // succeed()/fail() ignore the root
		default: break;
		}
	}
	char b[240];
	if (!h.loggerOn) {
		checked("C16.logger_silent");
		if (!logged.empty() || !logTr.empty() || !logCancel.empty() || !logTask.empty()) violate("C16.logger_silent", h.role + ": logger received records while detached during " + opName(op.kind), i);
		return;
	}
	if (op.kind == OP_LOGGER) return;
	checked("C16.logger_methods");
	if (logged != called) {
		size_t k = 0; while (k < logged.size() && k < called.size() && logged[k] == called[k]) ++k;
		std::snprintf(b, sizeof b, "%s: during %s the logger saw %zu method records, the callbacks ran %zu times; first difference at #%zu: logged %s(%d) vs called %s(%d)",
			h.role.c_str(), opName(op.kind), logged.size(), called.size(), k,
			k < logged.size() ? methodName(logged[k].second) : "-", k < logged.size() ? logged[k].first : -1,
			k < called.size() ? methodName(called[k].second) : "-", k < called.size() ? called[k].first : -1);
		violate("C16.logger_methods", b, i);
	}
	// every record must directly precede its callback
	for (size_t k = 0; k + 1 < h.trace.size(); ++k) {
		const Ev& e = h.trace[k];
		if (e.k != EV_LOG_METHOD || sh.st[size_t(e.state)].headless) continue;
		const Ev& n = h.trace[k + 1];
		if (!((n.k == EV_CB || n.k == EV_INJ) && n.state == e.state && n.method == e.method)) {
			std::snprintf(b, sizeof b, "%s: logger record %s(%d) is not followed by that callback", h.role.c_str(), methodName(e.method), e.state);
			violate("C16.logger_methods", b, i); break;
		}
	}
	// transitions: every issued request is logged, in order; extra records only from plan execution (origin = a region head)
	checked("C16.logger_transitions");
	{
		size_t j = 0;
		for (size_t k = 0; k < logTr.size(); ++k) {
			if (j < issued.size() && logTr[k].state == issued[j].state && logTr[k].a == issued[j].a && logTr[k].b == issued[j].b) { ++j; continue; }
			const int o = logTr[k].state;
			const bool planIssued = (s.node->caps() & CAP_PLANS) && o >= 0 && sh.isRegion(o);
			if (!planIssued) { std::snprintf(b, sizeof b, "%s: logger reported transition %s(%d) from %d that nobody issued", h.role.c_str(), kindName(logTr[k].a), logTr[k].b, o); violate("C16.logger_transitions", b, i); break; }
		}
		if (j < issued.size()) { std::snprintf(b, sizeof b, "%s: request %s(%d) issued from %d was not reported to the logger (in order)", h.role.c_str(), kindName(issued[j].a), issued[j].b, issued[j].state); violate("C16.logger_transitions", b, i); }
	}
	checked("C16.logger_cancel");
	if (logCancel.size() != cancels.size()) { std::snprintf(b, sizeof b, "%s: %zu cancellations, %zu reported", h.role.c_str(), cancels.size(), logCancel.size()); violate("C16.logger_cancel", b, i); }
	else for (size_t k = 0; k < cancels.size(); ++k) if (cancels[k].state != logCancel[k].state) { violate("C16.logger_cancel", h.role + ": cancellation reported with the wrong origin", i); break; }
	checked("C16.logger_tasks");
	if (logTask.size() != tasks.size()) { std::snprintf(b, sizeof b, "%s: %zu task status changes, %zu reported", h.role.c_str(), tasks.size(), logTask.size()); violate("C16.logger_tasks", b, i); }
	else for (size_t k = 0; k < tasks.size(); ++k) {
		const Ev& t = tasks[k]; const Ev& l = logTask[k];
		const int target = t.k == EV_DEFAULT ? t.state : t.a;
		const int ok = t.k == EV_SUCCEED || (t.k == EV_DEFAULT && t.method == M_PLAN_SUCCEEDED);
		if (l.state != target || l.b != ok) { std::snprintf(b, sizeof b, "%s: task status of state %d (%s) reported as state %d (%s)", h.role.c_str(), target, ok ? "ok" : "fail", l.state, l.b ? "ok" : "fail"); violate("C16.logger_tasks", b, i); break; }
		// ... on behalf of the region in whose scope the caller runs: the caller itself if it heads a region, else the region it sits in
		if ((t.k == EV_SUCCEED || t.k == EV_FAIL) && t.state >= 0 && (t.method == M_EXIT_GUARD || t.method == M_ENTRY_GUARD || t.method == M_UPDATE || t.method == M_PRE_UPDATE || t.method == M_POST_UPDATE)) {
			const int scope = sh.isRegion(t.state) ? t.state : sh.st[size_t(t.state)].parent;
			checked("C16.logger_task_region");
			if (l.a != scope) { std::snprintf(b, sizeof b, "%s: task status set by state %d in %s was reported for region %d, the caller's region is %d", h.role.c_str(), t.state, methodName(t.method), l.a, scope); violate("C16.logger_task_region", b, i); break; }
		}
	}
	// plan status precedes planSucceeded / planFailed of headed heads; select / random resolutions report what happened
	for (size_t k = 0; k < h.trace.size(); ++k) {
		const Ev& e = h.trace[k];
		if (e.k == EV_CB && (e.method == M_PLAN_SUCCEEDED || e.method == M_PLAN_FAILED)) {
			checked("C16.logger_plan");
			bool found = false;
			for (size_t q = k; q-- > 0;) { const Ev& p = h.trace[q]; if (p.k == EV_LOG_METHOD || p.k == EV_INJ) continue; found = p.k == EV_LOG_PLAN && p.state == e.state && p.b == (e.method == M_PLAN_SUCCEEDED); break; }
			if (!found) { std::snprintf(b, sizeof b, "%s: %s(%d) was not preceded by the matching plan status record", h.role.c_str(), methodName(e.method), e.state); violate("C16.logger_plan", b, i); }
		}
		if (e.k == EV_LOG_PLAN && !sh.st[size_t(e.state)].headless) {
			bool found = false;
			for (size_t q = k + 1; q < h.trace.size(); ++q) { const Ev& p = h.trace[q]; if (p.k == EV_LOG_METHOD) continue; found = p.k == EV_CB && p.state == e.state && p.method == (e.b ? M_PLAN_SUCCEEDED : M_PLAN_FAILED); break; }
			if (!found) { std::snprintf(b, sizeof b, "%s: plan status record for region %d without the callback", h.role.c_str(), e.state); violate("C16.logger_plan", b, i); }
		}
		if (e.k == EV_RET && e.method == M_SELECT) {
			checked("C16.logger_select");
			bool found = k + 1 < h.trace.size() && h.trace[k + 1].k == EV_LOG_SELECT && h.trace[k + 1].state == e.state && h.trace[k + 1].a == e.a;
			if (!found) { std::snprintf(b, sizeof b, "%s: select() of %d returned %d but the logger did not get that resolution next", h.role.c_str(), e.state, e.a); violate("C16.logger_select", b, i); }
		}
		if (e.k == EV_LOG_RANDOM && e.a >= 0 && !(s.node->caps() & CAP_BUILTIN_RNG)) {   // a < 0: an orthogonal region reporting its mean utility
			checked("C16.logger_random");
			bool found = false;
			for (size_t q = k; q-- > 0;) if (h.trace[q].k == EV_RNG) { found = std::memcmp(&h.trace[q].f, &e.f, 4) == 0; break; }
			if (!found) { std::snprintf(b, sizeof b, "%s: random resolution of region %d reports a number the generator did not serve", h.role.c_str(), e.state); violate("C16.logger_random", b, i); }
		}
	}
}

static int stepActivity(int v, bool active) {
	if (active) return v < 0 ? 1 : (v < 127 ? v + 1 : v);
	return v > 0 ? -1 : (v > -128 ? v - 1 : v);
}

void World::checkStructure(int i, const Op& op, const Obs& before, bool mustStep) {
	if (!wants("C16")) return;
	Slot& s = slots[size_t(i)];
	const Obs& o = s.obs;
	if (!o.alive || o.structure.empty()) return;
	const Shape& sh = s.node->shape();
	char b[220];
	checked("C16.structure_active");
	for (int k = 0; k < sh.n; ++k)
		if ((o.structure[size_t(k)] != 0) != (o.active[size_t(k)] != 0)) {
			std::snprintf(b, sizeof b, "%s: after %s structure()[%d].isActive=%d but isActive(%d)=%d", s.h->role.c_str(), opName(op.kind), k, int(o.structure[size_t(k)]), k, int(o.active[size_t(k)]));
			violate("C16.structure_active", b, i, op.kind == OP_RESET ? "reset_no_report_update" : "");
			return;
		}
	if (!before.alive || before.activity.empty()) return;
	// either no report update happened (all counters unchanged, which requires an unchanged configuration) or exactly one did
	bool unchanged = true, stepped = true;
	for (int k = 0; k < sh.n; ++k) {
		const int was = before.activity[size_t(k)], now = o.activity[size_t(k)];
		if (now != was) unchanged = false;
		if (now != stepActivity(was, o.active[size_t(k)] != 0)) stepped = false;
	}
	checked("C16.activity");
	if (!unchanged && !stepped) {
		for (int k = 0; k < sh.n; ++k) {
			const int was = before.activity[size_t(k)], now = o.activity[size_t(k)];
			if (now != was && now != stepActivity(was, o.active[size_t(k)] != 0)) {
				std::snprintf(b, sizeof b, "%s: activityHistory[%d] went %d -> %d with the state %s", s.h->role.c_str(), k, was, now, o.active[size_t(k)] ? "active" : "inactive");
				violate("C16.activity", b, i); return;
			}
		}
		violate("C16.activity", s.h->role + ": activity counters advanced for some states only", i);
		return;
	}
	if (unchanged && !stepped) {
		// counters did not move: fine unless the sign now disagrees with the state or an update was due
		for (int k = 0; k < sh.n; ++k) {
			const int now = o.activity[size_t(k)];
			const bool act = o.active[size_t(k)] != 0;
			if ((now > 0 && !act) || (now < 0 && act) || (now == 0 && mustStep)) {
				std::snprintf(b, sizeof b, "%s: after %s activityHistory[%d]=%d although the state is %s", s.h->role.c_str(), opName(op.kind), k, now, act ? "active" : "inactive");
				violate("C16.activity", b, i, op.kind == OP_RESET ? "reset_no_report_update" : ""); return;
			}
		}
		if (mustStep) {
			bool saturated = true;
			for (int k = 0; k < sh.n; ++k) if (stepActivity(o.activity[size_t(k)], o.active[size_t(k)] != 0) != o.activity[size_t(k)]) saturated = false;
			if (!saturated) violate("C16.activity", s.h->role + ": a report update was due after " + opName(op.kind) + " but no counter moved", i);
		}
	}
	if (stepped && !unchanged) {
		bool sat = false;
		for (int k = 0; k < sh.n; ++k) if (o.activity[size_t(k)] == 127 || o.activity[size_t(k)] == -128) sat = true;
		if (sat) probe("activity_saturated");
	}
}

// ---- after every client op on a node -----------------------------------------------------------------------------------------------

void World::afterOp(int i, const Op& op, const Obs& before) {
	Slot& s = slots[size_t(i)];
	Harness& h = *s.h;
	// circumstances under which a documented defect is known to act: violations raised for this op carry its tag
	circumstance.clear();
	for (auto& e : h.trace)
		if (e.k == EV_RET && e.method == M_SELECT && h.shape->isRegion(h.shape->kids[size_t(e.state)][size_t(e.a)])) { probe("select_named_region"); break; }
	checkAsserts(i, op);
	if (result.tainted) return;
	if (!s.obs.alive) return;
	const Shape& sh = s.node->shape();

	if (wants("C01")) checkWellFormed(i, "C01.wellformed");
	if (wants("C13")) {
		// activeSubState agreement is the C01 computation; report it under C13 as well
		const Obs& o = s.obs;
		const std::string err = wellFormedError(sh, [&](int k) { return o.active[size_t(k)] != 0; }, [&](int k) { return int(o.sub[size_t(k)]); }, -1);
		checked("C13.subactive");
		if (!err.empty() && err.find("activeSubState") != std::string::npos) violate("C13.subactive", h.role + ": " + err, i);
		checkIdlePending(i);
		if ((opIndex + i) % 3 == 0) checkResumeProbe(i);
	}
	if (wants("C03")) {
		checked("C03.entered_eq_active");
		for (int k = 0; k < sh.n; ++k) {
			if (sh.st[size_t(k)].headless) continue;
			if ((h.entered[size_t(k)] != 0) != (s.obs.active[size_t(k)] != 0)) {
				char b[200]; std::snprintf(b, sizeof b, "%s: after %s state %d is %s but %s", h.role.c_str(), opName(op.kind), k, h.entered[size_t(k)] ? "entered (no exit delivered)" : "not entered",
					s.obs.active[size_t(k)] ? "reported active" : "reported inactive");
				violate("C03.balance", b, i); break;
			}
		}
		if (op.kind == OP_EXIT && !s.expectActivated) {
			checked("C03.final");
			for (int k = 0; k < sh.n; ++k) if (h.entered[size_t(k)]) { violate("C03.final", h.role + ": exit() returned while state " + std::to_string(k) + " is still entered", i); break; }
		}
	}
	checkLogger(i, op, before);
	{
		bool mustStep = false;
		if (op.kind == OP_ENTER && !before.activated && s.obs.activated) mustStep = true;
		if (op.kind == OP_EXIT && before.activated && !s.obs.activated) mustStep = true;
		if ((op.kind == OP_UPDATE || op.kind == OP_REACT) && before.activated && !before.queued.empty()) mustStep = true;
		if (op.kind == OP_IMMEDIATE && before.activated) { for (auto& e : h.trace) if (e.k == EV_ISSUE && e.state == -1) mustStep = true; }
		checkStructure(i, op, before, mustStep);
	}
	modelAfterOp(*this, i, op, before);
	checkPayloads(i, op, before);
	checkIssuedKinds(i, op, before);
	checkPlansStorage(i, op, before);
	// a state that exits takes its marks with it; exit() and load() wipe all of them
	if (!s.extSuccess.empty()) {
		for (auto& e : h.trace) if (e.k == EV_CB && e.method == M_EXIT && e.state >= 0 && e.state < int(s.extSuccess.size()) && op.kind != OP_UPDATE && op.kind != OP_REACT) { s.extSuccess[size_t(e.state)] = 0; s.extFailure[size_t(e.state)] = 0; }
		if (op.kind == OP_EXIT || op.kind == OP_SNAPSHOT || op.kind == OP_DELIVER) { std::fill(s.extSuccess.begin(), s.extSuccess.end(), 0); std::fill(s.extFailure.begin(), s.extFailure.end(), 0); }
	}

	if (cov && collect) {
		uint64_t hsh = std::hash<std::string>()(sh.name);
		for (auto a : s.obs.active) hsh = mix64(hsh, a);
		for (auto a : s.obs.resumable) hsh = mix64(hsh, a);
		cov->configs.insert(hsh);
	}
}

// ---- cross-node agreement: determinism twin, copy, build twin ----------------------------------------------------------------------

static bool sameTrace(const Harness& a, const Harness& b, bool ignoreLogger, bool ignoreFeature, size_t* where) {
	size_t i = 0, j = 0;
	auto skip = [&](const Ev& e) {
		if (ignoreLogger && e.k >= EV_LOG_METHOD && e.k <= EV_LOG_RANDOM) return true;
		if (ignoreFeature && (e.k == EV_SKIP)) return true;
		return false;
	};
	for (;;) {
		while (i < a.trace.size() && skip(a.trace[i])) ++i;
		while (j < b.trace.size() && skip(b.trace[j])) ++j;
		if (i >= a.trace.size() || j >= b.trace.size()) break;
		Ev x = a.trace[i], y = b.trace[j];
		if (ignoreFeature) { x.p = y.p = 0; x.hasP = y.hasP = 0; }
		if (!x.same(y)) { if (where) *where = i; return false; }
		++i; ++j;
	}
	if (i < a.trace.size() || j < b.trace.size()) { if (where) *where = i; return false; }
	return true;
}

void World::crossCheck(const Op& op) {
	if (result.tainted) return;
	Slot& A = slots[size_t(iA)];
	char b[300];
	if (iT >= 0 && slots[size_t(iT)].node && wants("C10")) {
		Slot& T = slots[size_t(iT)];
		if (A.obs.alive == T.obs.alive) {
			size_t w = 0;
			checked("C10.twin");
			if (!sameTrace(*A.h, *T.h, !plan.wp.twinLogger, false, &w)) {
				std::snprintf(b, sizeof b, "identically driven twins diverge during %s at event #%zu: A %s", opName(op.kind), w, w < A.h->trace.size() ? evStr(A.h->trace[w]).c_str() : "(end)");
				violate("C10.twin", b, iT);
			} else if (A.obs.alive && (!A.obs.sameConfig(T.obs) || A.obs.prev != T.obs.prev || A.obs.sub != T.obs.sub || A.obs.lastTo != T.obs.lastTo || A.obs.queued != T.obs.queued || A.obs.plans.size() != T.obs.plans.size() ||
			           !std::equal(A.obs.plans.begin(), A.obs.plans.end(), T.obs.plans.begin()) || A.obs.activity != T.obs.activity)) {
				violate("C10.twin", std::string("identically driven twins give different answers after ") + opName(op.kind), iT);
			}
		}
	}
	if (iT >= 0 && slots[size_t(iT)].node && wants("C16") && !plan.wp.twinLogger) {
		Slot& T = slots[size_t(iT)];
		size_t w = 0;
		checked("C16.logger_neutral");
		if (A.obs.alive && T.obs.alive && (!sameTrace(*A.h, *T.h, true, false, &w) || !A.obs.sameConfig(T.obs))) {
			std::snprintf(b, sizeof b, "instance with a logger and its logger-less twin diverge during %s at event #%zu", opName(op.kind), w);
			violate("C16.logger_neutral", b, iT);
		}
	}
	if (iC >= 0 && slots[size_t(iC)].node && slots[size_t(iC)].obs.alive && wants("C10")) {
		Slot& C = slots[size_t(iC)];
		size_t w = 0;
		checked("C10.copy");
		if (!sameTrace(*A.h, *C.h, false, false, &w)) {
			std::snprintf(b, sizeof b, "copy does not continue like its original during %s: event #%zu: original %s", opName(op.kind), w, w < A.h->trace.size() ? evStr(A.h->trace[w]).c_str() : "(end)");
			violate("C10.copy", b, iC, (A.node->caps() & CAP_BUILTIN_RNG) ? "copy_shares_builtin_rng" : "");
		} else if (!A.obs.sameConfig(C.obs) || A.obs.prev != C.obs.prev || A.obs.lastTo != C.obs.lastTo || A.obs.queued != C.obs.queued || A.obs.plans != C.obs.plans) violate("C10.copy", std::string("copy and original answer differently after ") + opName(op.kind), iC, (A.node->caps() & CAP_BUILTIN_RNG) ? "copy_shares_builtin_rng" : "");
	}
	if (iB >= 0 && slots[size_t(iB)].node && slots[size_t(iB)].obs.alive && wants("C15")) {
		Slot& B = slots[size_t(iB)];
		size_t w = 0;
		checked("C15.build_twin");
		distinct(mix64(mix64(std::hash<std::string>()(plan.wp.shape + plan.wp.config + plan.wp.twinConfig), A.h->hash), uint64_t(op.kind)));
		if (!sameTrace(*A.h, *B.h, true, true, &w)) {
			std::snprintf(b, sizeof b, "configurations %s and %s behave differently during %s: event #%zu: %s %s", plan.wp.config.c_str(), plan.wp.twinConfig.c_str(), opName(op.kind), w,
				plan.wp.config.c_str(), w < A.h->trace.size() ? evStr(A.h->trace[w]).c_str() : "(end)");
			violate("C15.build_twin", b, iB);
		} else if (!A.obs.sameConfig(B.obs) || A.obs.sub != B.obs.sub)
			violate("C15.build_twin", "configurations " + plan.wp.config + " and " + plan.wp.twinConfig + " end in different configurations after " + opName(op.kind), iB);
	}
}

// ---- dispatch -------------------------------------------------------------------------------------------------------------------

void World::execOp(const Op& op) {
	if (clientOp(op.kind)) {
		if (aCrashed) return;
		const int targets[4] = {iA, iT, iC, iB};
		Obs beforeA = slots[size_t(iA)].obs;
		for (int t : targets) {
			if (t < 0 || !slots[size_t(t)].node || !slots[size_t(t)].node->alive()) continue;
			const Obs before = slots[size_t(t)].obs;
			apply(t, op);
			observe(t);
			if (std::getenv("VF_TRACE")) {
				std::fprintf(stderr, "-- op %d %s on %s\n", opIndex, opName(op.kind), slots[size_t(t)].h->role.c_str());
				for (auto& e : slots[size_t(t)].h->trace) std::fprintf(stderr, "   %s\n", evStr(e).c_str());
				std::fprintf(stderr, "   active:"); for (size_t k = 0; k < slots[size_t(t)].obs.active.size(); ++k) if (slots[size_t(t)].obs.active[k]) std::fprintf(stderr, " %zu", k);
				std::fprintf(stderr, "  resumable:"); for (size_t k = 0; k < slots[size_t(t)].obs.resumable.size(); ++k) if (slots[size_t(t)].obs.resumable[k]) std::fprintf(stderr, " %zu", k);
				std::fprintf(stderr, "\n");
			}
			afterOp(t, op, before);
			if (result.tainted) return;
		}
		crossCheck(op);
		if (op.kind == OP_UPDATE) { ++tick; if (cov && collect) ++cov->ticks; }
		// a processing step on the authority: ship what it recorded
		if (!result.tainted && slots[size_t(iA)].stepped && (op.kind == OP_UPDATE || op.kind == OP_REACT || op.kind == OP_IMMEDIATE || op.kind == OP_ENTER || op.kind == OP_RESET || op.kind == OP_EXIT))
			shipDelta(op, beforeA, 0, false);
		return;
	}
	switch (op.kind) {
	case OP_SNAPSHOT: doSnapshot(op); break;
	case OP_DELIVER: deliver(op); break;
	case OP_PERTURB: doPerturb(op); break;
	case OP_CRASH: doCrash(); break;
	case OP_RESTART: doRestart(op); break;
	case OP_FORK: doFork(op); break;
	case OP_KILL_ORIGINAL: doKillOriginal(op); break;
	case OP_PARTITION: partitioned = op.a != 0; fault(partitioned ? "partition" : "heal"); break;
	default: break;
	}
}

std::string World::assertTag(const std::string& expr) const {
	if (expr.find("_core.requests.count() == 0") != std::string::npos) return "substitution_limit_leftover";
	if (expr.find("applyRequests(control, transitions, count)") != std::string::npos) return "replay_of_history_without_net_effect";
	if (expr.find("parent.forkId > 0") != std::string::npos || expr.find("parent.forkId != 0") != std::string::npos) return "schedule_root";
	if (expr.find("tasksFailures .get(stateId)") != std::string::npos || expr.find("tasksSuccesses.get(stateId)") != std::string::npos) return "status_mark_on_inactive_state";
	const Harness* h = (curNode >= 0 && curNode < int(slots.size())) ? slots[size_t(curNode)].h.get() : nullptr;
	if (h && expr.find("registry.isActive(HEAD_ID)") != std::string::npos && h->inActivation && h->shape->isOrtho(0)) return "activation_request_ortho_root";
	// a request naming a region that is active directly below an orthogonal region is forwarded into the region's active sub-state as if it were
	// addressed further down; an orthogonal region met on that way finds none of its sub-states requested
	if (h && expr == "!!requested") {
		const Shape& sh = *h->shape;
		auto named = [&](int d) { if (d < 0 || d >= sh.n || !sh.isCompo(d)) return false; const int par = sh.st[size_t(d)].parent; const Obs& ob = slots[size_t(curNode)].obs; return par >= 0 && sh.isOrtho(par) && d < int(ob.active.size()) && ob.active[size_t(d)] != 0; };
		for (auto& q : slots[size_t(curNode)].obs.queued) if (q.kind != K_SCHEDULE && named(q.dest)) return "active_region_under_ortho_not_retargeted";
		for (auto& e : h->trace) if (e.k == EV_ISSUE && e.a != K_SCHEDULE && named(e.b)) return "active_region_under_ortho_not_retargeted";
		for (auto& pl : slots[size_t(curNode)].obs.plans) for (auto& tk : pl) if (named(tk.dest)) return "active_region_under_ortho_not_retargeted";      // a task about to be executed
		for (auto& e : h->trace) if (e.k == EV_PLAN_EDIT && (e.a & 0xFF) == A_PLAN_APPEND && named(int(e.c & 0xFFFF))) return "active_region_under_ortho_not_retargeted";
	}
	return "";
}

static thread_local World* g_policyWorld = nullptr;
static bool assertPolicy(const char* expr) {
	World* w = g_policyWorld;
	if (!w) return true;
	// the memory-safety lens stops at the first hit; so does everybody for hits that belong to a documented finding.
	// Any other assertion is news: under the other lenses the library carries on as a production build would, and the lens judges the outcome.
	if (w->wants("C11")) return true;
	static const bool strict = std::getenv("VF_ASSERT_STRICT") != nullptr;     // triage aid: every lens stops at every hit
	if (strict) return true;
	if (!w->assertTag(expr).empty()) return true;
	// bounds assertions stand right in front of an indexed access: carrying on would only turn the hit into a sanitizer abort
	{ const std::string e(expr); for (const char* pat : {"< CAPACITY", "<= CAPACITY", "< STATE_COUNT", "< count", "< _count", "<= _count", "< REGION_COUNT", "< COMPO", "< ORTHO", "< TASK"}) if (e.find(pat) != std::string::npos) return true; }
	++w->assertionsContinued;
	return w->assertionsContinued > 200;
}

RunResult World::run() {
	std::jmp_buf jb;
	g_policyWorld = this; g_assertPolicy = &assertPolicy;
	if (setjmp(jb) == 0) {
		g_assertJump = &jb;
		runBody();
	} else {
		// a library assertion fired: the instance is in an undefined state, nothing more is executed on any node
		g_inLibrary = 0;
		for (auto& s : slots) if (s.node && s.node->alive()) s.node->abandon();
		result.tainted = true;
		if (!asserts.empty()) {
			const AssertHit& a = asserts.back();
			const std::string tag = assertTag(a.expr);
			Harness* h = (curNode >= 0 && curNode < int(slots.size())) ? slots[size_t(curNode)].h.get() : nullptr;
			if (h && wants("C04") && curOpKind != OP_ENTER) {
				// bounded liveness in rounds holds or fails regardless of what the assertion says about leftovers
				checked("C04.round_limit");
				if (h->round + 1 > h->node->substitutionLimit()) violate("C04.round_limit", h->role + ": " + std::to_string(h->round + 1) + " guard rounds in one processing step, substitution limit is " + std::to_string(h->node->substitutionLimit()), curNode);
				else if (h->round + 1 == h->node->substitutionLimit()) probe("round_limit_reached_with_leftovers");
			}
			if (std::getenv("VF_ASSERT_STRICT") && tag.empty()) std::fprintf(stderr, "STRICT-ASSERT `%s` %s:%d seed=%llu shape=%s config=%s lens=%s\n", a.expr.c_str(), a.file.c_str(), a.line, (unsigned long long) plan.seed, plan.wp.shape.c_str(), plan.wp.config.c_str(), plan.lens.c_str());
			checked("C11.assert");
			violate("C11.assert", (h ? h->role : std::string("?")) + ": library assertion `" + a.expr + "` failed at " + a.file + ":" + std::to_string(a.line) + " during " + opName(curOpKind), curNode, tag);
		}
	}
	g_assertJump = nullptr; g_assertPolicy = nullptr; g_policyWorld = nullptr;
	uint64_t hsh = 0;
	for (auto& s : slots) if (s.h) hsh = mix64(hsh, s.h->hash);
	result.hash = hsh;
	if (cov && collect) { ++cov->runs; cov->ops += result.opsExecuted; }
	g_assertSink = nullptr;
	return result;
}

void World::runBody() {
	std::string err;
	if (!setup(err)) { Violation v; v.oracle = "SIM.setup"; v.detail = err; result.violations.push_back(v); return; }
	g_assertSink = &asserts;
	g_libAllocs = 0;
	opIndex = -1;
	// construction of every node (automatic activation enters here); the first operation's card is in force
	static const Op idle = [] { Op o; o.kind = OP_ENTER; return o; }();
	const Op& first = plan.ops.empty() ? idle : plan.ops[0];
	for (size_t i = 0; i < slots.size(); ++i) {
		Slot& s = slots[i];
		const bool isFollower = std::find(followers.begin(), followers.end(), int(i)) != followers.end();
		Op ctor = idle;
		if (!isFollower) { ctor.res = first.res; ctor.rnd = first.rnd; }
		heldOps.emplace_back(new Op(ctor));
		s.h->op = heldOps.back().get();
		const bool logger = (int(i) == iT && !plan.wp.twinLogger) ? false : plan.wp.startLogger;
		const Obs before;
		constructNode(int(i), logger);
		observe(int(i));
		afterOp(int(i), *heldOps.back(), before);
		if (result.tainted) break;
	}
	if (!result.tainted) {
		crossCheck(idle);
		Obs none;
		shipDelta(idle, none, 0, false);
	}
	for (opIndex = 0; opIndex < int(plan.ops.size()) && !result.tainted && result.violations.empty(); ++opIndex) {
		execOp(plan.ops[size_t(opIndex)]);
		++result.opsExecuted;
	}
	// faults stop: one snapshot reaches every follower, after which all replicas must agree (bounded liveness)
	if (!result.tainted && result.violations.empty() && !followers.empty() && !aCrashed && slots[size_t(iA)].obs.alive && (slots[size_t(iA)].node->caps() & CAP_SERIAL)) {
		partitioned = false;
		Op snap; snap.kind = OP_SNAPSHOT; snap.a = 2;   // ship reliably
		opIndex = int(plan.ops.size());
		doSnapshot(snap);
		while (!net.empty() && !result.tainted && result.violations.empty()) { Op d; d.kind = OP_DELIVER; d.a = 0; deliver(d); }
	}
	// destruction: automatic instances exit everything
	if (!result.tainted && result.violations.empty()) {
		opIndex = int(plan.ops.size());
		for (size_t i = 0; i < slots.size(); ++i) {
			Slot& s = slots[i];
			if (!s.node || !s.node->alive()) continue;
			static const Op dtor = [] { Op o; o.kind = OP_EXIT; return o; }();
			s.h->beginOp(&dtor);
			const bool automatic = !(s.node->caps() & CAP_MANUAL);
			s.node->destroy();
			if (!asserts.empty()) { checkAsserts(int(i), dtor); break; }
			if (automatic && wants("C03")) {
				checked("C03.final");
				for (int k = 0; k < s.h->shape->n; ++k) if (s.h->entered[size_t(k)]) { violate("C03.final", s.h->role + ": instance destroyed while state " + std::to_string(k) + " is still entered", int(i)); break; }
			}
		}
	}
}

RunResult execute(const RunPlan& p, Coverage* cov) {
	World w(p, cov);
	return w.run();
}

} // namespace vf
