// json.hpp -- minimal JSON value (parse + dump), enough for replay files and evidence fragments.
#pragma once
#include <string>
#include <vector>
#include <utility>
#include <cstdio>
#include <cstdlib>
#include <cstring>
#include <cstdint>
#include <cmath>

namespace js {

struct Value {
	enum Type { NUL, BOOL, NUM, STR, ARR, OBJ } type = NUL;
	bool b = false;
	double num = 0;
	bool isInt = false;
	int64_t i = 0;
	std::string str;
	std::vector<Value> arr;
	std::vector<std::pair<std::string, Value>> obj;

	Value() {}
	Value(bool v) : type(BOOL), b(v) {}
	Value(int v) : type(NUM), num(v), isInt(true), i(v) {}
	Value(unsigned v) : type(NUM), num(v), isInt(true), i(v) {}
	Value(long v) : type(NUM), num(double(v)), isInt(true), i(v) {}
	Value(long long v) : type(NUM), num(double(v)), isInt(true), i(v) {}
	Value(unsigned long v) : type(NUM), num(double(v)), isInt(true), i(int64_t(v)) {}
	Value(unsigned long long v) : type(NUM), num(double(v)), isInt(true), i(int64_t(v)) {}
	Value(double v) : type(NUM), num(v) {}
	Value(const char* s) : type(STR), str(s) {}
	Value(const std::string& s) : type(STR), str(s) {}
	static Value array() { Value v; v.type = ARR; return v; }
	static Value object() { Value v; v.type = OBJ; return v; }

	Value& push(const Value& v) { type = ARR; arr.push_back(v); return arr.back(); }
	Value& set(const std::string& k, const Value& v) {
		type = OBJ;
		for (auto& kv : obj) if (kv.first == k) { kv.second = v; return kv.second; }
		obj.emplace_back(k, v); return obj.back().second;
	}
	const Value* find(const std::string& k) const {
		for (auto& kv : obj) if (kv.first == k) return &kv.second;
		return nullptr;
	}
	bool has(const std::string& k) const { return find(k) != nullptr; }
	const Value& at(const std::string& k) const { static Value nul; const Value* v = find(k); return v ? *v : nul; }
	int64_t asInt(int64_t d = 0) const { return type == NUM ? (isInt ? i : int64_t(num)) : (type == BOOL ? (b ? 1 : 0) : d); }
	double  asNum(double d = 0) const { return type == NUM ? num : d; }
	bool    asBool(bool d = false) const { return type == BOOL ? b : (type == NUM ? num != 0 : d); }
	const std::string& asStr() const { return str; }
	size_t size() const { return type == ARR ? arr.size() : obj.size(); }

	void dump(std::string& out, int indent = -1, int depth = 0) const {
		auto nl = [&](int d) { if (indent >= 0) { out += '\n'; out.append(size_t(d * indent), ' '); } };
		switch (type) {
		case NUL: out += "null"; break;
		case BOOL: out += b ? "true" : "false"; break;
		case NUM: {
			char buf[64];
			if (isInt) std::snprintf(buf, sizeof buf, "%lld", (long long) i);
			else if (std::isfinite(num)) std::snprintf(buf, sizeof buf, "%.9g", num);
			else std::snprintf(buf, sizeof buf, "null");
			out += buf; break; }
		case STR: dumpStr(str, out); break;
		case ARR: {
			out += '[';
			bool simple = true;
			for (auto& v : arr) if (v.type == ARR || v.type == OBJ) simple = false;
			for (size_t k = 0; k < arr.size(); ++k) {
				if (k) out += ',';
				if (!simple) nl(depth + 1); else if (k) out += ' ';
				arr[k].dump(out, simple ? -1 : indent, depth + 1);
			}
			if (!simple && !arr.empty()) nl(depth);
			out += ']'; break; }
		case OBJ: {
			out += '{';
			for (size_t k = 0; k < obj.size(); ++k) {
				if (k) out += ',';
				nl(depth + 1);
				dumpStr(obj[k].first, out); out += indent >= 0 ? ": " : ":";
				obj[k].second.dump(out, indent, depth + 1);
			}
			if (!obj.empty()) nl(depth);
			out += '}'; break; }
		}
	}
	std::string dump(int indent = -1) const { std::string s; dump(s, indent); return s; }

	static void dumpStr(const std::string& s, std::string& out) {
		out += '"';
		for (unsigned char c : s) {
			if (c == '"') out += "\\\""; else if (c == '\\') out += "\\\\";
			else if (c == '\n') out += "\\n"; else if (c == '\t') out += "\\t";
			else if (c < 0x20) { char b[8]; std::snprintf(b, sizeof b, "\\u%04x", c); out += b; }
			else out += char(c);
		}
		out += '"';
	}
};

struct Parser {
	const char* p; const char* e; bool ok = true;
	explicit Parser(const std::string& s) : p(s.data()), e(s.data() + s.size()) {}
	void ws() { while (p < e && (*p == ' ' || *p == '\n' || *p == '\t' || *p == '\r')) ++p; }
	Value parse() {
		ws();
		if (p >= e) { ok = false; return Value(); }
		if (*p == '{') {
			Value v = Value::object(); ++p; ws();
			if (p < e && *p == '}') { ++p; return v; }
			while (ok) {
				ws(); Value k = parse(); ws();
				if (k.type != Value::STR || p >= e || *p != ':') { ok = false; break; }
				++p; Value x = parse(); v.obj.emplace_back(k.str, x); ws();
				if (p < e && *p == ',') { ++p; continue; }
				if (p < e && *p == '}') { ++p; break; }
				ok = false;
			}
			return v;
		}
		if (*p == '[') {
			Value v = Value::array(); ++p; ws();
			if (p < e && *p == ']') { ++p; return v; }
			while (ok) {
				v.arr.push_back(parse()); ws();
				if (p < e && *p == ',') { ++p; continue; }
				if (p < e && *p == ']') { ++p; break; }
				ok = false;
			}
			return v;
		}
		if (*p == '"') {
			++p; std::string s;
			while (p < e && *p != '"') {
				if (*p == '\\' && p + 1 < e) {
					++p;
					if (*p == 'n') s += '\n'; else if (*p == 't') s += '\t';
					else if (*p == 'u' && p + 4 < e) { s += char(std::strtol(std::string(p + 1, p + 5).c_str(), nullptr, 16)); p += 4; }
					else s += *p;
					++p;
				} else s += *p++;
			}
			if (p < e) ++p; else ok = false;
			return Value(s);
		}
		if (!std::strncmp(p, "true", 4)) { p += 4; return Value(true); }
		if (!std::strncmp(p, "false", 5)) { p += 5; return Value(false); }
		if (!std::strncmp(p, "null", 4)) { p += 4; return Value(); }
		const char* s = p; bool isInt = true;
		if (p < e && (*p == '-' || *p == '+')) ++p;
		while (p < e && ((*p >= '0' && *p <= '9') || *p == '.' || *p == 'e' || *p == 'E' || *p == '-' || *p == '+')) {
			if (*p == '.' || *p == 'e' || *p == 'E') isInt = false;
			++p;
		}
		if (p == s) { ok = false; return Value(); }
		std::string t(s, p);
		Value v; v.type = Value::NUM;
		if (isInt) { v.isInt = true; v.i = std::strtoll(t.c_str(), nullptr, 10); v.num = double(v.i); }
		else v.num = std::strtod(t.c_str(), nullptr);
		return v;
	}
};

inline bool parse(const std::string& text, Value& out) { Parser p(text); out = p.parse(); return p.ok; }

inline bool readFile(const std::string& path, std::string& out) {
	FILE* f = std::fopen(path.c_str(), "rb"); if (!f) return false;
	char buf[65536]; size_t n; out.clear();
	while ((n = std::fread(buf, 1, sizeof buf, f)) > 0) out.append(buf, n);
	std::fclose(f); return true;
}
inline bool writeFile(const std::string& path, const std::string& text) {
	FILE* f = std::fopen(path.c_str(), "wb"); if (!f) return false;
	std::fwrite(text.data(), 1, text.size(), f); std::fclose(f); return true;
}

} // namespace js
