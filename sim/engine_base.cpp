// engine_base.cpp -- names, replay-file (de)serialisation, arenas, coverage, the harness record.
#include "engine.hpp"
#include <cstdio>
#include <algorithm>

#if defined(__has_feature)
#  if __has_feature(address_sanitizer)
#    define VF_ASAN 1
#  endif
#endif
#if defined(__SANITIZE_ADDRESS__)
#  define VF_ASAN 1
#endif
#ifdef VF_ASAN
extern "C" void __asan_poison_memory_region(void const volatile*, size_t);
extern "C" void __asan_unpoison_memory_region(void const volatile*, size_t);
#endif

namespace vf {

const char* opName(int k) {
	static const char* n[] = {"update", "react", "query", "request", "immediate", "succeed", "fail", "planAppend", "planClear",
		"planRemove", "reset", "enter", "exit", "logger", "snapshot", "deliver", "perturb", "crash", "restart", "fork",
		"killOriginal", "partition"};
	return (k >= 0 && k < OP_COUNT) ? n[k] : "?";
}
const char* actName(int a) {
	static const char* n[] = {"request", "succeed", "fail", "cancel", "consume", "planAppend", "planClear", "planRemove", "noDefault"};
	return (a >= 0 && a < A_COUNT) ? n[a] : "?";
}
static int opFromName(const std::string& s) { for (int i = 0; i < OP_COUNT; ++i) if (s == opName(i)) return i; return -1; }
static int actFromName(const std::string& s) { for (int i = 0; i < A_COUNT; ++i) if (s == actName(i)) return i; return -1; }
static int methodFromName(const std::string& s) { for (int i = 0; i < M_COUNT; ++i) if (s == methodName(i)) return i; return 0; }
static int kindFromName(const std::string& s) { for (int i = 0; i < K_COUNT; ++i) if (s == kindName(i)) return i; return 0; }

std::string evStr(const Ev& e) {
	char b[160];
	static const char* kn[] = {"cb", "inj", "ret", "issue", "succeed", "fail", "cancel", "consume", "planEdit", "default", "skip", "rng",
		"logMethod", "logTransition", "logTask", "logPlan", "logCancel", "logSelect", "logUtility", "logRandom", "api"};
	std::snprintf(b, sizeof b, "%s(s=%d m=%s a=%d b=%d c=%d f=%.9g%s r=%d)", kn[e.k], e.state, methodName(e.method), e.a, e.b, e.c, double(e.f),
	              e.hasP ? (" p=" + std::to_string(e.p)).c_str() : "", e.round);
	return b;
}

// ---- replay files ------------------------------------------------------------------------------------

static js::Value actionJson(const Action& a) {
	js::Value v = js::Value::object();
	v.set("do", actName(a.type));
	switch (a.type) {
	case A_REQUEST: v.set("kind", kindName(a.kind)); v.set("dest", int(a.a)); break;
	case A_SUCCEED: case A_FAIL: v.set("state", int(a.a)); break;
	case A_PLAN_APPEND: v.set("region", int(a.a)); v.set("kind", kindName(a.kind)); v.set("origin", int(a.b)); v.set("dest", int(a.c)); break;
	case A_PLAN_CLEAR: v.set("region", int(a.a)); break;
	case A_PLAN_REMOVE: v.set("region", int(a.a)); v.set("index", int(a.b)); break;
	default: break;
	}
	if (a.withPayload) v.set("payload", (long long) a.payload);
	return v;
}
static Action actionFrom(const js::Value& v) {
	Action a; a.type = uint8_t(std::max(0, actFromName(v.at("do").asStr())));
	a.kind = int8_t(kindFromName(v.at("kind").asStr()));
	switch (a.type) {
	case A_REQUEST: a.a = int16_t(v.at("dest").asInt()); break;
	case A_SUCCEED: case A_FAIL: a.a = int16_t(v.at("state").asInt(-1)); break;
	case A_PLAN_APPEND: a.a = int16_t(v.at("region").asInt()); a.b = int16_t(v.at("origin").asInt()); a.c = int16_t(v.at("dest").asInt()); break;
	case A_PLAN_CLEAR: a.a = int16_t(v.at("region").asInt()); break;
	case A_PLAN_REMOVE: a.a = int16_t(v.at("region").asInt()); a.b = int16_t(v.at("index").asInt()); break;
	default: break;
	}
	if (v.has("payload")) { a.withPayload = true; a.payload = v.at("payload").asInt(); }
	return a;
}

static js::Value opJson(const Op& o) {
	js::Value v = js::Value::object();
	v.set("op", opName(o.kind));
	v.set("uid", (unsigned long long) o.uid);
	switch (o.kind) {
	case OP_REACT: v.set("event", int(o.a)); break;
	case OP_REQUEST: case OP_IMMEDIATE: case OP_PERTURB: v.set("kind", kindName(o.a)); v.set("dest", int(o.b)); if (o.kind == OP_PERTURB) v.set("follower", int(o.c)); break;
	case OP_SUCCEED: case OP_FAIL: v.set("state", int(o.a)); break;
	case OP_PLAN_APPEND: v.set("region", int(o.a)); v.set("kind", kindName(o.b)); v.set("origin", int(o.c)); v.set("dest", int(o.d)); break;
	case OP_PLAN_CLEAR: v.set("region", int(o.a)); break;
	case OP_PLAN_REMOVE: v.set("region", int(o.a)); v.set("index", int(o.b)); break;
	case OP_LOGGER: case OP_PARTITION: v.set("on", int(o.a)); break;
	case OP_DELIVER: v.set("pick", int(o.a)); break;
	case OP_SNAPSHOT: v.set("ship", int(o.a)); break;
	case OP_KILL_ORIGINAL: case OP_FORK: case OP_CRASH: case OP_RESTART: v.set("arg", int(o.a)); break;
	default: break;
	}
	if (o.withPayload) v.set("payload", (long long) o.payload);
	if (!o.card.empty()) {
		js::Value c = js::Value::array();
		for (auto& e : o.card) {
			js::Value x = js::Value::object();
			x.set("state", int(e.state)); x.set("method", methodName(e.method)); x.set("occurrence", int(e.occurrence));
			if (e.injected) x.set("injected", 1);
			js::Value acts = js::Value::array();
			for (auto& a : e.actions) acts.push(actionJson(a));
			x.set("actions", acts);
			c.push(x);
		}
		v.set("card", c);
	}
	if (!o.res.empty()) {
		js::Value r = js::Value::array();
		for (auto& x : o.res) { js::Value y = js::Value::array(); y.push(int(x.state)); y.push(int(x.select)); y.push(int(x.rank)); y.push(double(x.utility)); r.push(y); }
		v.set("resolvers", r);
	}
	if (!o.rnd.empty()) {
		js::Value r = js::Value::array();
		for (float f : o.rnd) r.push(double(f));
		v.set("rng", r);
	}
	return v;
}
static bool opFrom(const js::Value& v, Op& o) {
	const int k = opFromName(v.at("op").asStr());
	if (k < 0) return false;
	o = Op{}; o.kind = uint8_t(k); o.uid = uint32_t(v.at("uid").asInt());
	switch (o.kind) {
	case OP_REACT: o.a = int16_t(v.at("event").asInt()); break;
	case OP_REQUEST: case OP_IMMEDIATE: case OP_PERTURB: o.a = int16_t(kindFromName(v.at("kind").asStr())); o.b = int16_t(v.at("dest").asInt()); o.c = int16_t(v.at("follower").asInt()); break;
	case OP_SUCCEED: case OP_FAIL: o.a = int16_t(v.at("state").asInt()); break;
	case OP_PLAN_APPEND: o.a = int16_t(v.at("region").asInt()); o.b = int16_t(kindFromName(v.at("kind").asStr())); o.c = int16_t(v.at("origin").asInt()); o.d = int16_t(v.at("dest").asInt()); break;
	case OP_PLAN_CLEAR: o.a = int16_t(v.at("region").asInt()); break;
	case OP_PLAN_REMOVE: o.a = int16_t(v.at("region").asInt()); o.b = int16_t(v.at("index").asInt()); break;
	case OP_LOGGER: case OP_PARTITION: o.a = int16_t(v.at("on").asInt()); break;
	case OP_DELIVER: o.a = int16_t(v.at("pick").asInt()); break;
	case OP_SNAPSHOT: o.a = int16_t(v.at("ship").asInt()); break;
	case OP_KILL_ORIGINAL: case OP_FORK: case OP_CRASH: case OP_RESTART: o.a = int16_t(v.at("arg").asInt()); break;
	default: break;
	}
	if (v.has("payload")) { o.withPayload = true; o.payload = v.at("payload").asInt(); }
	for (auto& x : v.at("card").arr) {
		CardEntry e; e.state = int16_t(x.at("state").asInt()); e.method = uint8_t(methodFromName(x.at("method").asStr()));
		e.occurrence = int8_t(x.at("occurrence").asInt(-1)); e.injected = uint8_t(x.at("injected").asInt());
		for (auto& a : x.at("actions").arr) e.actions.push_back(actionFrom(a));
		o.card.push_back(e);
	}
	for (auto& x : v.at("resolvers").arr) if (x.arr.size() == 4) {
		Resolver r; r.state = int16_t(x.arr[0].asInt()); r.select = int16_t(x.arr[1].asInt()); r.rank = int16_t(x.arr[2].asInt()); r.utility = float(x.arr[3].asNum());
		o.res.push_back(r);
	}
	for (auto& x : v.at("rng").arr) o.rnd.push_back(float(x.asNum()));
	return true;
}

js::Value toJson(const RunPlan& p) {
	js::Value v = js::Value::object();
	v.set("seed", (unsigned long long) p.seed);
	v.set("lens", p.lens);
	js::Value w = js::Value::object();
	w.set("shape", p.wp.shape); w.set("config", p.wp.config); w.set("twinConfig", p.wp.twinConfig); w.set("peerConfig", p.wp.peerConfig);
	w.set("followers", p.wp.followers); w.set("twin", p.wp.twin); w.set("twinLogger", p.wp.twinLogger);
	w.set("fillA", p.wp.fillA); w.set("fillT", p.wp.fillT); w.set("startLogger", p.wp.startLogger);
	w.set("featureMask", (unsigned long long) p.wp.featureMask); w.set("guardRequests", p.wp.guardRequests);
	w.set("dropPct", p.wp.dropPct); w.set("dupPct", p.wp.dupPct); w.set("delayMax", p.wp.delayMax);
	w.set("allowOverflow", p.wp.allowOverflow); w.set("maxTasks", p.wp.maxTasks);
	js::Value av = js::Value::array(); for (auto& a : p.wp.avoid) av.push(a);
	w.set("avoid", av);
	v.set("world", w);
	js::Value ops = js::Value::array();
	for (auto& o : p.ops) ops.push(opJson(o));
	v.set("ops", ops);
	return v;
}
bool fromJson(const js::Value& v, RunPlan& p) {
	p = RunPlan{};
	p.seed = uint64_t(v.at("seed").asInt());
	p.lens = v.at("lens").asStr();
	const js::Value& w = v.at("world");
	p.wp.shape = w.at("shape").asStr(); p.wp.config = w.at("config").asStr(); p.wp.twinConfig = w.at("twinConfig").asStr(); p.wp.peerConfig = w.at("peerConfig").asStr();
	p.wp.followers = int(w.at("followers").asInt()); p.wp.twin = w.at("twin").asBool(true); p.wp.twinLogger = w.at("twinLogger").asBool(true);
	p.wp.fillA = int(w.at("fillA").asInt()); p.wp.fillT = int(w.at("fillT").asInt(1)); p.wp.startLogger = w.at("startLogger").asBool(true);
	p.wp.featureMask = uint32_t(w.at("featureMask").asInt(0xFFFFFFFFll)); p.wp.guardRequests = w.at("guardRequests").asBool(true);
	p.wp.dropPct = int(w.at("dropPct").asInt()); p.wp.dupPct = int(w.at("dupPct").asInt()); p.wp.delayMax = int(w.at("delayMax").asInt());
	p.wp.allowOverflow = w.at("allowOverflow").asBool(false); p.wp.maxTasks = int(w.at("maxTasks").asInt(-1));
	for (auto& a : w.at("avoid").arr) p.wp.avoid.insert(a.asStr());
	for (auto& o : v.at("ops").arr) { Op x; if (!opFrom(o, x)) return false; p.ops.push_back(x); }
	return !p.wp.shape.empty();
}

// ---- arenas ---------------------------------------------------------------------------------------------

static const size_t ZONE = 128;

void Arena::make(size_t bytes, size_t align, int fill, uint64_t seed) {
	size = bytes;
	if (align < 64) align = 64;
	raw.assign(bytes + 2 * ZONE + align, 0);
	uintptr_t p = reinterpret_cast<uintptr_t>(raw.data()) + ZONE;
	p = (p + align - 1) / align * align;
	base = reinterpret_cast<uint8_t*>(p);
	Rng r(seed);
	for (size_t i = 0; i < bytes; ++i) {
		switch (fill) {
		case 0: base[i] = 0x00; break;
		case 1: base[i] = 0xFF; break;
		case 2: base[i] = 0xA5; break;
		default: base[i] = uint8_t(r.next()); break;
		}
	}
	std::memset(base - ZONE, 0x5C, ZONE);
	std::memset(base + size, 0x5C, ZONE);
#ifdef VF_ASAN
	__asan_poison_memory_region(base - ZONE, ZONE);
	__asan_poison_memory_region(base + size, ZONE);
#endif
}
bool Arena::zonesIntact() const {
	if (!base) return true;
#ifdef VF_ASAN
	__asan_unpoison_memory_region(base - ZONE, ZONE);
	__asan_unpoison_memory_region(base + size, ZONE);
#endif
	bool ok = true;
	for (size_t i = 0; i < ZONE; ++i) ok = ok && base[-1 - ptrdiff_t(i)] == 0x5C && base[size + i] == 0x5C;
#ifdef VF_ASAN
	__asan_poison_memory_region(base - ZONE, ZONE);
	__asan_poison_memory_region(base + size, ZONE);
#endif
	return ok;
}
void Arena::poison() {
#ifdef VF_ASAN
	if (base) __asan_poison_memory_region(base, size);
#else
	if (base) std::memset(base, 0xDD, size);
#endif
}
void Arena::unpoison() {
#ifdef VF_ASAN
	if (base) __asan_unpoison_memory_region(base, size);
#endif
}
Arena::~Arena() {
#ifdef VF_ASAN
	if (!raw.empty()) __asan_unpoison_memory_region(raw.data(), raw.size());
#endif
}

// ---- coverage ---------------------------------------------------------------------------------------------

void Coverage::merge(const Coverage& o) {
	runs += o.runs; ops += o.ops; callbacks += o.callbacks; ticks += o.ticks;
	for (auto& kv : o.faults) faults[kv.first] += kv.second;
	for (auto& kv : o.probes) probes[kv.first] += kv.second;
	for (auto& kv : o.oracleChecks) oracleChecks[kv.first] += kv.second;
	distinct.insert(o.distinct.begin(), o.distinct.end());
	configs.insert(o.configs.begin(), o.configs.end());
	for (auto& s : o.samples) if (samples.size() < 6) samples.push_back(s);
}
js::Value Coverage::toJson() const {
	js::Value v = js::Value::object();
	v.set("runs", runs); v.set("ops", ops); v.set("callbacks", callbacks); v.set("ticks", ticks);
	js::Value f = js::Value::object(); for (auto& kv : faults) f.set(kv.first, kv.second); v.set("faults", f);
	js::Value p = js::Value::object(); for (auto& kv : probes) p.set(kv.first, kv.second); v.set("probes", p);
	js::Value c = js::Value::object(); for (auto& kv : oracleChecks) c.set(kv.first, kv.second); v.set("oracle_checks", c);
	v.set("distinct", (unsigned long long) distinct.size());
	js::Value d = js::Value::array(); for (auto h : distinct) d.push((unsigned long long) h); v.set("distinct_hashes", d);
	js::Value g = js::Value::array(); for (auto h : configs) g.push((unsigned long long) h); v.set("config_hashes", g);
	js::Value s = js::Value::array(); for (auto& x : samples) s.push(x); v.set("samples", s);
	return v;
}

// ---- harness ------------------------------------------------------------------------------------------------

void Harness::beginOp(const Op* o) {
	op = o;
	if (world && index >= 0) { world->curNode = index; world->curOpKind = o ? o->kind : -1; }
	trace.clear(); guards.clear(); selfs.clear(); views.clear();
	occ.assign(size_t(shape->n) * M_COUNT * 2, 0);
	rndIndex = 0; round = -1; roundSeen.clear(); roundHadEntry = false; roundPending.clear();
	inActivationSeen = false;
}

void Harness::push(const Ev& e, const void* self) {
	trace.push_back(e);
	selfs.push_back(self);
	uint64_t h = hash;
	h = mix64(h, uint64_t(e.k) | (uint64_t(e.method) << 8) | (uint64_t(uint16_t(e.state)) << 16) | (uint64_t(uint32_t(e.a)) << 32));
	uint32_t fb; std::memcpy(&fb, &e.f, 4);
	h = mix64(h, uint64_t(uint32_t(e.b)) | (uint64_t(fb) << 32));
	h = mix64(h, uint64_t(e.p) ^ (uint64_t(uint32_t(e.c)) << 7) ^ e.hasP);
	hash = h;
}

const Resolver* Harness::resolver(int state) const {
	if (op) for (auto& r : op->res) if (r.state == state) return &r;
	return nullptr;
}

float Harness::nextRandom() {
	if (mute) return 0.5f;
	float v = 0.5f;
	if (op && !op->rnd.empty()) v = op->rnd[std::min<size_t>(size_t(rndIndex), op->rnd.size() - 1)];
	++rndIndex;
	Ev e; e.k = EV_RNG; e.f = v; push(e);
	return v;
}

int Harness::onSelect(int state, const void* self, ICtl&) {
	const int width = shape->st[state].width > 0 ? shape->st[state].width : 1;
	int v = 0;
	if (!mute) { if (const Resolver* r = resolver(state)) v = r->select; }
	v = ((v % width) + width) % width;
	if (mute) return v;
	Ev e; e.k = EV_CB; e.method = M_SELECT; e.state = int16_t(state); push(e, self);
	Ev r; r.k = EV_RET; r.method = M_SELECT; r.state = int16_t(state); r.a = v; push(r);
	++cbCount;
	return v;
}
int Harness::onRank(int state, const void* self, ICtl&) {
	int v = 0;
	if (!mute) { if (const Resolver* r = resolver(state)) v = r->rank; }
	if (mute) return v;
	Ev e; e.k = EV_CB; e.method = M_RANK; e.state = int16_t(state); push(e, self);
	Ev r; r.k = EV_RET; r.method = M_RANK; r.state = int16_t(state); r.a = v; push(r);
	++cbCount;
	return v;
}
float Harness::onUtility(int state, const void* self, ICtl&) {
	float v = 1.0f;
	if (!mute) { if (const Resolver* r = resolver(state)) v = r->utility; }
	if (mute) return v;
	Ev e; e.k = EV_CB; e.method = M_UTILITY; e.state = int16_t(state); push(e, self);
	Ev r; r.k = EV_RET; r.method = M_UTILITY; r.state = int16_t(state); r.f = v; push(r);
	++cbCount;
	return v;
}

void Harness::logMethod(int state, int method) { if (mute) return; Ev e; e.k = EV_LOG_METHOD; e.state = int16_t(state); e.method = uint8_t(method); push(e); }
void Harness::logTransition(int origin, int kind, int dest) { if (mute) return; Ev e; e.k = EV_LOG_TRANSITION; e.state = int16_t(origin); e.a = kind; e.b = dest; push(e); }
void Harness::logTaskStatus(int region, int origin, int ok) { if (mute) return; Ev e; e.k = EV_LOG_TASK; e.state = int16_t(origin); e.a = region; e.b = ok; push(e); }
void Harness::logPlanStatus(int region, int ok) { if (mute) return; Ev e; e.k = EV_LOG_PLAN; e.state = int16_t(region); e.b = ok; push(e); }
void Harness::logCancelled(int origin) { if (mute) return; Ev e; e.k = EV_LOG_CANCEL; e.state = int16_t(origin); push(e); }
void Harness::logSelect(int head, int prong) { if (mute) return; Ev e; e.k = EV_LOG_SELECT; e.state = int16_t(head); e.a = prong; push(e); }
void Harness::logUtility(int head, int prong, float u) { if (mute) return; Ev e; e.k = EV_LOG_UTILITY; e.state = int16_t(head); e.a = prong; e.f = u; push(e); }
void Harness::logRandom(int head, int prong, float r) { if (mute) return; Ev e; e.k = EV_LOG_RANDOM; e.state = int16_t(head); e.a = prong; e.f = r; push(e); }

void Harness::onCallback(int state, int method, int injected, const void* self, ICtl& ctl) {
	if (mute) {
		if ((method == M_PLAN_SUCCEEDED || method == M_PLAN_FAILED) && !injected) ctl.defaultPlanResult(method == M_PLAN_SUCCEEDED);
		return;
	}
	++cbCount;
	if (inActivation) inActivationSeen = true;
	Ev e; e.k = injected ? EV_INJ : EV_CB; e.method = uint8_t(method); e.state = int16_t(state);
	const bool isGuard = method == M_ENTRY_GUARD || method == M_EXIT_GUARD;
	std::vector<Tr> pend;
	if (isGuard) {
		ctl.pending(pend);
		const std::pair<int,int> key(state, method * 2 + injected);
		const bool fresh = round < 0 || (method == M_EXIT_GUARD && roundHadEntry) || roundSeen.count(key) || pend != roundPending;
		if (fresh) { ++round; roundSeen.clear(); roundHadEntry = false; roundPending = pend; }
		roundSeen.insert(key);
		if (method == M_ENTRY_GUARD) roundHadEntry = true;
		e.round = int16_t(round);
	}
	push(e, self);
	if (!injected) world->checkLifecycle(*this, e, self);
	world->inCallbackProbes(*this, state, method, ctl);
	if (isGuard && !injected) {
		GuardView g; g.state = state; g.method = method; g.round = round; g.pending = pend; g.evIndex = int(trace.size()) - 1;
		ctl.current(g.current);
		g.pendEnter.resize(size_t(shape->n)); g.pendExit.resize(size_t(shape->n)); g.pendChange.resize(size_t(shape->n));
		for (int s = 0; s < shape->n; ++s) { g.pendEnter[size_t(s)] = ctl.isPendingEnter(s); g.pendExit[size_t(s)] = ctl.isPendingExit(s); g.pendChange[size_t(s)] = ctl.isPendingChange(s); }
		guards.push_back(std::move(g));
	}

	if (!injected && (method == M_ENTER || method == M_UPDATE) && (node->caps() & (CAP_PAYLOAD | CAP_HISTORY)) && world->wants("C14")) {
		CtlView v; v.state = state; v.method = method;
		if (method == M_ENTER) ctl.current(v.current);
		else v.has = ctl.lastTransition(v.last);
		views.push_back(std::move(v));
	}
	const size_t oi = (size_t(state) * M_COUNT + size_t(method)) * 2 + size_t(injected);
	const int k = occ[oi]++;
	bool noDefault = false;
	const uint32_t caps = ctl.caps();
	const uint32_t ncaps = node->caps() & world->plan.wp.featureMask;
	if (op) for (const CardEntry& ce : op->card) {
		if (ce.state != state || ce.method != method || ce.injected != injected) continue;
		if (ce.occurrence >= 0 && ce.occurrence != k) continue;
		for (const Action& a : ce.actions) {
			Ev x; x.state = int16_t(state); x.method = uint8_t(method);
			switch (a.type) {
			case A_REQUEST: {
				if (!(caps & CC_REQUEST)) break;
				if ((a.kind == K_UTILIZE || a.kind == K_RANDOMIZE) && !(ncaps & CAP_UTILITY)) break;
				if (a.a < 0 || a.a >= shape->n) break;
				if (inActivation && shape->isOrtho(0) && world->plan.wp.avoid.count("activation_request_ortho_root")) {
					x.k = EV_SKIP; x.a = a.kind; x.b = a.a; push(x); break; }
				// (under the C04 lens the storm is allowed to hit the limit: the run then ends on the documented assertion, after the round count was checked)
				if (isGuard && world->plan.wp.avoid.count("substitution_limit_leftover") && !world->wants("C04") && round >= node->substitutionLimit() - 1) {
					x.k = EV_SKIP; x.a = a.kind; x.b = a.a; push(x); world->probe("last_round_request_skipped"); break; }
				if (respectQueue) {
					std::vector<Tr> q; ctl.requests(q);
					if (int(q.size()) >= shape->compoCount) { x.k = EV_SKIP; x.a = a.kind; x.b = a.a; push(x); world->probe("queue_full_skip"); break; }
				}
				const bool wp = a.withPayload && (ncaps & CAP_PAYLOAD);
				ctl.request(a.kind, a.a, wp ? &a.payload : nullptr);
				x.k = EV_ISSUE; x.a = a.kind; x.b = a.a; x.hasP = wp; x.p = wp ? a.payload : 0; push(x);
				break; }
			case A_SUCCEED: case A_FAIL: {
				if (!(caps & CC_REQUEST) || !(ncaps & CAP_PLANS)) break;
				const int target = a.a < 0 ? state : a.a;
				if (target <= 0 || target >= shape->n) break;
				if (world->plan.wp.avoid.count("status_mark_on_inactive_state") && !ctl.isActive(target)) break;
				if (a.type == A_SUCCEED) ctl.succeed(a.a < 0 ? -1 : a.a); else ctl.fail(a.a < 0 ? -1 : a.a);
				x.k = a.type == A_SUCCEED ? EV_SUCCEED : EV_FAIL; x.a = target; push(x);
				break; }
			case A_CANCEL:
				if (!(caps & CC_GUARD) || inActivation) break;
				ctl.cancel();
				x.k = EV_CANCEL; push(x);
				if (!guards.empty() && !injected) guards.back().cancelled = true;
				break;
			case A_CONSUME:
				if (!(caps & (CC_EVENT | CC_QUERY))) break;
				ctl.consume();
				x.k = EV_CONSUME; push(x);
				break;
			case A_PLAN_APPEND: {
				if (!(caps & CC_PLAN) || !(ncaps & CAP_PLANS)) break;
				if ((a.kind == K_UTILIZE || a.kind == K_RANDOMIZE) && !(ncaps & CAP_UTILITY)) break;
				if (world->plan.wp.maxTasks >= 0) { PlanProbe pp; node->probePlans(pp); if (pp.count >= world->plan.wp.maxTasks) break; }
				const bool wp = a.withPayload && (ncaps & CAP_PAYLOAD);
				const bool ok = ctl.planAppend(a.a, a.kind, a.b, a.c, wp ? &a.payload : nullptr);
				x.k = EV_PLAN_EDIT; x.a = A_PLAN_APPEND | (a.a << 8) | (int(a.kind) << 16); x.b = a.b; x.c = a.c | (ok ? 0x10000 : 0); x.hasP = wp; x.p = wp ? a.payload : 0; push(x);
				break; }
			case A_PLAN_CLEAR:
				if (!(caps & CC_PLAN) || !(ncaps & CAP_PLANS)) break;
				ctl.planClear(a.a);
				x.k = EV_PLAN_EDIT; x.a = A_PLAN_CLEAR | (a.a << 8); push(x);
				break;
			case A_PLAN_REMOVE: {
				if (!(caps & CC_PLAN) || !(ncaps & CAP_PLANS)) break;
				const bool ok = ctl.planRemoveAt(a.a, a.b);
				x.k = EV_PLAN_EDIT; x.a = A_PLAN_REMOVE | (a.a << 8); x.b = a.b; x.c = ok; push(x);
				break; }
			case A_NO_DEFAULT: noDefault = true; break;
			default: break;
			}
		}
	}
	if ((method == M_PLAN_SUCCEEDED || method == M_PLAN_FAILED) && !injected) {
		if (!noDefault) {
			ctl.defaultPlanResult(method == M_PLAN_SUCCEEDED);
			Ev d; d.k = EV_DEFAULT; d.state = int16_t(state); d.method = uint8_t(method); push(d);
		}
	}
}

} // namespace vf
