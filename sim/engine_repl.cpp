// engine_repl.cpp -- replication: deltas and snapshots over a lossy transport, durable store, crash / restart, copies.
#include "engine.hpp"
#include <algorithm>
#include <cstdio>
#include <cstdlib>

namespace vf {

const Op* World::holdOp(const Op& op, bool keepCard) {
	std::unique_ptr<Op> o(new Op(op));
	if (!keepCard) o->card.clear();
	heldOps.push_back(std::move(o));
	return heldOps.back().get();
}

static uint64_t cfgHash(const Obs& o) {
	uint64_t h = o.activated ? 3 : 5;
	for (auto a : o.active) h = mix64(h, a);
	for (auto a : o.resumable) h = mix64(h, uint64_t(a) + 2);
	return h;
}

// ---- deltas ------------------------------------------------------------------------------------------------------

void World::shipDelta(const Op& op, const Obs& before, int, bool) {
	Slot& A = slots[size_t(iA)];
	if (!A.obs.alive || !(A.node->caps() & CAP_HISTORY)) return;
	Harness& h = *A.h;
	const bool wasActive = before.alive && before.activated;
	const bool isActive = A.obs.activated;
	int rounds = h.round + 1;
	bool hadSchedule = false;
	for (auto& q : before.queued) if (q.kind == K_SCHEDULE) hadSchedule = true;
	for (auto& e : h.trace) if (e.k == EV_ISSUE && e.a == K_SCHEDULE) hadSchedule = true;
	// a request issued by a guard is processed in a further round, whether or not that round consults anybody
	for (auto& e : h.trace) if (e.k == EV_ISSUE && (e.method == M_ENTRY_GUARD || e.method == M_EXIT_GUARD) && rounds < 2) rounds = 2;

	if (op.kind == OP_RESET || op.kind == OP_EXIT) {
		if (op.kind == OP_EXIT && !(wasActive && !isActive)) return;
		if (op.kind == OP_RESET && !wasActive) return;
		storeBroken = true;
		for (int f : followers) slots[size_t(f)].synced = false;
		return;
	}
	const bool enterStep = !wasActive && isActive;
	if (!isActive) return;
	if (A.obs.prev.empty() && !enterStep) {
		// nothing recorded: replicas are not told anything; if the state key moved anyway (scheduling), they are out of date
		if (before.alive && !A.obs.sameConfig(before)) { for (int f : followers) slots[size_t(f)].synced = false; logExact = false; storeBroken = true; probe("unrecorded_state_change"); }
		return;
	}
	Message m;
	m.seq = ++seq; m.kind = 0; m.delta = A.obs.prev; m.src = A.obs; m.srcBefore = before;
	m.op = holdOp(op, false); m.rounds = rounds; m.hadSchedule = hadSchedule;
	if (rounds > 1) probe("multi_round_step");
	if (!storeBroken) { storeLog.push_back(m); if (rounds > 1 || hadSchedule) logExact = false; }
	for (size_t k = 0; k < followers.size(); ++k) {
		Message c = m; c.to = followers[k];
		const uint64_t r = mix64(mix64(plan.seed, op.uid), uint64_t(k) * 977 + uint64_t(seq));
		if (partitioned) { fault("partition_drop"); continue; }
		if (int(r % 100) < plan.wp.dropPct) { fault("drop"); continue; }
		c.at = tick + (plan.wp.delayMax > 0 ? int((r >> 8) % uint64_t(plan.wp.delayMax + 1)) : 0);
		if (c.at > tick) fault("delay");
		net.push_back(c);
		if (int((r >> 20) % 100) < plan.wp.dupPct) { fault("duplicate"); net.push_back(c); }
	}
}

void World::applyDelta(int i, const Message& m, bool check) {
	Slot& F = slots[size_t(i)];
	Harness& h = *F.h;
	const Obs before = F.obs;
	const bool enterStep = !(m.srcBefore.alive && m.srcBefore.activated) && m.src.activated;
	h.beginOp(m.op);
	{ Ev e; e.k = EV_API; e.a = 100; h.push(e); }
	bool ok = true;
	if (enterStep) {
		if (F.expectActivated) return;
		h.inActivation = true;
		if (m.delta.empty()) F.node->enter(); else ok = F.node->replayEnter(m.delta);
		h.inActivation = false;
		F.expectActivated = ok || m.delta.empty();
		if (!m.delta.empty()) probe("replay_enter");
	} else {
		if (!F.expectActivated) return;
		ok = F.node->replay(m.delta);
	}
	observe(i);
	if (std::getenv("VF_TRACE")) {
		std::fprintf(stderr, "-- op %d %s on %s (seq %d)\n", opIndex, "replay", h.role.c_str(), m.seq);
		for (auto& e : h.trace) std::fprintf(stderr, "   %s\n", evStr(e).c_str());
		std::fprintf(stderr, "   active:"); for (size_t k = 0; k < F.obs.active.size(); ++k) if (F.obs.active[k]) std::fprintf(stderr, " %zu", k);
		std::fprintf(stderr, "  resumable:"); for (size_t k = 0; k < F.obs.resumable.size(); ++k) if (F.obs.resumable[k]) std::fprintf(stderr, " %zu", k);
		std::fprintf(stderr, "\n");
	}
	Op pseudo = *m.op; pseudo.kind = OP_DELIVER;
	afterOp(i, pseudo, before);
	if (result.tainted || !check) return;
	char b[260];
	if (wants("C09")) {
		checked("C09.no_guards");
		if (!(enterStep && m.delta.empty())) for (auto& e : h.trace) if ((e.k == EV_CB || e.k == EV_INJ) && (e.method == M_ENTRY_GUARD || e.method == M_EXIT_GUARD)) {
			std::snprintf(b, sizeof b, "%s: replay consulted %s of state %d", h.role.c_str(), methodName(e.method), e.state); violate("C09.no_guards", b, i); break; }
		checked("C09.replay_active");
		distinct(mix64(mix64(0xC09, cfgHash(before)), cfgHash(m.src)));
		if (F.obs.activated != m.src.activated || F.obs.active != m.src.active) {
			int s = 0; while (s < int(F.obs.active.size()) && F.obs.active[size_t(s)] == m.src.active[size_t(s)]) ++s;
			std::snprintf(b, sizeof b, "%s: replaying %zu recorded transition(s) from the authority's pre-step state did not reproduce its configuration (first difference: state %d); rounds=%d replay()=%d",
				h.role.c_str(), m.delta.size(), s, m.rounds, int(ok));
			// documented: scheduling requests are applied but not recorded; a resume-style resolution later in the same step depends on them
			violate("C09.replay_active", b, i, m.hadSchedule ? "unrecorded_schedule_changes_resolution" : "");
		} else if (F.obs.resumable != m.src.resumable) {
			if (m.rounds <= 1 && !m.hadSchedule) {
				int s = 0; while (s < int(F.obs.resumable.size()) && F.obs.resumable[size_t(s)] == m.src.resumable[size_t(s)]) ++s;
				checked("C09.replay_resumable");
				std::snprintf(b, sizeof b, "%s: single-round step without scheduling: replay reproduced the active configuration but not the resumable sub-states (state %d)", h.role.c_str(), s);
				violate("C09.replay_resumable", b, i);
			} else { F.synced = false; probe("replay_resumable_divergence_allowed"); }
		} else if (m.rounds <= 1 && !m.hadSchedule) checked("C09.replay_resumable");
	}
	if (F.obs.activated != m.src.activated || F.obs.active != m.src.active || F.obs.resumable != m.src.resumable) F.synced = false;
}

// ---- snapshots -----------------------------------------------------------------------------------------------------

void World::applySnapshot(int i, const std::vector<uint8_t>& bytes, const Obs& src, const Op* op, const char* why) {
	Slot& F = slots[size_t(i)];
	Harness& h = *F.h;
	if (!F.node->alive()) return;
	if (!(F.node->caps() & CAP_MANUAL) && !src.activated) return;   // automatic machines are never inactive
	const Obs before = F.obs;
	h.beginOp(op);
	{ Ev e; e.k = EV_API; e.a = 101; h.push(e); }
	F.node->load(bytes);
	F.expectActivated = src.activated;
	observe(i);
	if (std::getenv("VF_TRACE")) {
		std::fprintf(stderr, "-- op %d %s on %s (seq %d)\n", opIndex, why, h.role.c_str(), 0);
		for (auto& e : h.trace) std::fprintf(stderr, "   %s\n", evStr(e).c_str());
		std::fprintf(stderr, "   active:"); for (size_t k = 0; k < F.obs.active.size(); ++k) if (F.obs.active[k]) std::fprintf(stderr, " %zu", k);
		std::fprintf(stderr, "  resumable:"); for (size_t k = 0; k < F.obs.resumable.size(); ++k) if (F.obs.resumable[k]) std::fprintf(stderr, " %zu", k);
		std::fprintf(stderr, "\n");
	}
	Op pseudo = *op; pseudo.kind = OP_SNAPSHOT;
	afterOp(i, pseudo, before);
	if (result.tainted) return;
	if (!before.activated) probe("load_into_inactive");
	if (!src.activated) probe("load_of_inactive");
	const bool unrelated = before.activated && src.activated && before.active != src.active;
	if (unrelated) probe("load_into_unrelated");
	if (!wants("C08")) return;
	char b[260];
	const Shape& sh = *h.shape;
	distinct(mix64(mix64(0xC08, cfgHash(before)), cfgHash(src)));
	checked("C08.roundtrip");
	if (F.obs.activated != src.activated || F.obs.active != src.active) {
		int s = 0; while (s < sh.n && F.obs.active[size_t(s)] == src.active[size_t(s)]) ++s;
		std::snprintf(b, sizeof b, "%s (%s): after load the active configuration differs from the saved one (state %d: loaded %d, saved %d)", h.role.c_str(), why, s,
			s < sh.n ? int(F.obs.active[size_t(s)]) : -1, s < sh.n ? int(src.active[size_t(s)]) : -1);
		violate("C08.roundtrip", b, i);
	} else if (F.obs.resumable != src.resumable) {
		int s = 0; while (s < sh.n && F.obs.resumable[size_t(s)] == src.resumable[size_t(s)]) ++s;
		std::snprintf(b, sizeof b, "%s (%s): after load isResumable(%d)=%d but the saved instance had %d (loading instance was %s)", h.role.c_str(), why, s,
			int(F.obs.resumable[size_t(s)]), int(src.resumable[size_t(s)]), !before.activated ? "inactive" : (unrelated ? "in an unrelated configuration" : "in the same active configuration"));
		violate("C08.roundtrip", b, i, (before.activated && src.activated) ? "load_resumable_active_target" : "");
	}
	// re-save must be bit-identical
	std::vector<uint8_t> again;
	F.node->save(again);
	checked("C08.resave");
	if (again != bytes) {
		std::snprintf(b, sizeof b, "%s (%s): saving the loaded instance gives a different buffer (%zu vs %zu bytes%s)", h.role.c_str(), why, again.size(), bytes.size(),
			again.size() == bytes.size() ? ", same size" : "");
		violate("C08.resave", b, i, (before.activated && src.activated && F.obs.active == src.active) ? "load_resumable_active_target" : "");
	}
	// exit for every state that stopped being active, enter for every state that became active
	checked("C08.load_callbacks");
	std::vector<int> enters(size_t(sh.n), 0), exits(size_t(sh.n), 0);
	for (auto& e : h.trace) if (e.k == EV_CB) { if (e.method == M_ENTER) ++enters[size_t(e.state)]; if (e.method == M_EXIT) ++exits[size_t(e.state)]; }
	for (int s = 0; s < sh.n; ++s) {
		if (sh.st[size_t(s)].headless) continue;
		const bool was = before.activated && before.active[size_t(s)], is = F.obs.active[size_t(s)] != 0;
		const int en = enters[size_t(s)], ex = exits[size_t(s)];
		bool bad = false;
		if (was && !is) bad = !(ex == en + 1);
		else if (!was && is) bad = !(en == ex + 1);
		else bad = en != ex;
		if (bad) {
			std::snprintf(b, sizeof b, "%s (%s): state %d was %s and is %s after load, but received %d enter / %d exit", h.role.c_str(), why, s, was ? "active" : "inactive", is ? "active" : "inactive", en, ex);
			violate("C08.load_callbacks", b, i); break;
		}
	}
}

void World::doSnapshot(const Op& op) {
	Slot& A = slots[size_t(iA)];
	if (aCrashed || !A.obs.alive || !(A.node->caps() & CAP_SERIAL & plan.wp.featureMask)) return;
	const Obs before = A.obs;
	std::vector<uint8_t> bytes;
	A.h->beginOp(&neutral);
	A.node->save(bytes);
	observe(iA);
	checkAsserts(iA, op);
	if (result.tainted) return;
	char b[200];
	if (wants("C08")) {
		checked("C08.save_pure");
		if (!A.obs.sameConfig(before) || A.obs.prev != before.prev || A.obs.queued != before.queued || A.h->trace.size() != 0)
			violate("C08.save_pure", "A: save() changed the instance or ran callbacks", iA);
		checked("C08.buffer");
		if (int(bytes.size()) != A.node->serialBytes()) { std::snprintf(b, sizeof b, "A: save() wrote outside the %d-byte buffer", A.node->serialBytes()); violate("C08.buffer", b, iA); }
		// the buffer's size follows from the structure
		checked("C08.buffer_size");
		if (A.node->serialBits() != A.h->shape->serialBitsNeeded()) { std::snprintf(b, sizeof b, "A: the serial buffer is declared with %d bits; the structure's longest image needs %d", A.node->serialBits(), A.h->shape->serialBitsNeeded()); violate("C08.buffer_size", b, iA); }
	}
	if (iT >= 0 && slots[size_t(iT)].obs.alive) {
		std::vector<uint8_t> tb; slots[size_t(iT)].h->beginOp(&neutral); slots[size_t(iT)].node->save(tb);
		if (wants("C10")) { checked("C10.twin"); if (tb != bytes && A.obs.sameConfig(slots[size_t(iT)].obs)) violate("C10.twin", "twins in the same state serialise to different buffers", iT); }
	}
	storeHasSnapshot = true; storeSnapshot = bytes; storeSnapshotObs = A.obs; storeLog.clear(); storeBroken = false; logExact = true;
	fault("snapshot");
	if (op.a == 0) return;
	const Op* held = holdOp(neutral, false);
	for (size_t k = 0; k < followers.size(); ++k) {
		Message m; m.seq = ++seq; m.kind = 1; m.bytes = bytes; m.src = A.obs; m.op = held; m.to = followers[k]; m.at = tick; m.reliable = op.a == 2;
		const uint64_t r = mix64(mix64(plan.seed, op.uid), uint64_t(k) * 131 + uint64_t(seq));
		if (!m.reliable) {
			if (partitioned) { fault("partition_drop"); continue; }
			if (int(r % 100) < plan.wp.dropPct) { fault("drop"); continue; }
			m.at = tick + (plan.wp.delayMax > 0 ? int((r >> 8) % uint64_t(plan.wp.delayMax + 1)) : 0);
		}
		net.push_back(m);
	}
}

void World::applyMessage(int fi, Message& m) {
	Slot& F = slots[size_t(fi)];
	if (!F.node->alive()) return;
	if (m.kind == 1) {
		if (m.seq <= F.lastSeq && F.synced) { fault("stale_discarded"); return; }
		applySnapshot(fi, m.bytes, m.src, m.op, F.synced ? "follower in step" : "follower out of date");
		F.lastSeq = std::max(F.lastSeq, m.seq);
		F.synced = F.obs.sameConfig(m.src);
		fault("snapshot_applied");
		return;
	}
	if (m.seq <= F.lastSeq) { fault("stale_discarded"); return; }
	const bool inOrder = m.seq == F.lastSeq + 1;
	F.lastSeq = m.seq;
	if (!inOrder) { F.synced = false; fault("gap"); return; }
	if (!F.synced) { fault("waiting_for_snapshot"); return; }
	// identically prepared replica: same state key as the authority had before the step
	const bool enterStep = !(m.srcBefore.alive && m.srcBefore.activated) && m.src.activated;
	if (!enterStep && !F.obs.sameConfig(m.srcBefore)) { F.synced = false; return; }
	if (enterStep && F.obs.activated) { F.synced = false; return; }
	applyDelta(fi, m, true);
	fault("delta_applied");
}

void World::deliver(const Op& op) {
	std::vector<size_t> ready;
	for (size_t k = 0; k < net.size(); ++k) if (net[k].at <= tick || net[k].reliable) ready.push_back(k);
	if (ready.empty()) { if (!net.empty()) { size_t k = 0; ready.push_back(k); } else return; }
	const size_t pick = ready[size_t(op.a < 0 ? 0 : op.a) % ready.size()];
	if (pick != 0) fault("reorder");
	Message m = net[pick];
	net.erase(net.begin() + long(pick));
	applyMessage(m.to, m);
}

void World::doPerturb(const Op& op) {
	if (followers.empty()) return;
	const int fi = followers[size_t(op.c < 0 ? 0 : op.c) % followers.size()];
	Slot& F = slots[size_t(fi)];
	if (!F.node->alive() || !F.expectActivated) return;
	if ((op.a == K_UTILIZE || op.a == K_RANDOMIZE) && !(F.node->caps() & CAP_UTILITY & plan.wp.featureMask)) return;
	if (op.b < 0 || op.b >= F.h->shape->n || op.a == K_SCHEDULE) return;
	const Obs before = F.obs;
	Op local = op; local.kind = OP_IMMEDIATE; local.card.clear();
	const Op* held = holdOp(local, false);
	apply(fi, *held);
	observe(fi);
	afterOp(fi, *held, before);
	F.synced = false;
	fault("perturb");
}

// ---- crash / restart ------------------------------------------------------------------------------------------------

void World::doCrash() {
	if (aCrashed) return;
	Slot& A = slots[size_t(iA)];
	if (!A.obs.alive) return;
	preCrash = A.obs;
	const int group[3] = {iA, iT, iC};
	for (int t : group) {
		if (t < 0 || !slots[size_t(t)].node) continue;
		Slot& s = slots[size_t(t)];
		if (s.node->alive()) s.node->abandon();
		s.arena->poison();
		std::fill(s.h->entered.begin(), s.h->entered.end(), 0);
		s.obs = Obs{};
		s.expectActivated = false;
	}
	if (iC >= 0) { slots[size_t(iC)].node.reset(); iC = -1; }
	aCrashed = true;
	fault("crash");
}

void World::doRestart(const Op& op) {
	if (!aCrashed) return;
	const int group[2] = {iA, iT};
	const Op* held = holdOp(op, false);
	for (int t : group) {
		if (t < 0) continue;
		Slot& s = slots[size_t(t)];
		const bool logger = s.h->loggerOn;
		s.arena.reset(new Arena);
		s.arena->make(s.node->instanceSize(), s.node->instanceAlign(), (op.a + (t == iT ? 1 : 0)) & 3, mix64(plan.seed, op.uid + uint64_t(t)));
		s.h->op = held;
		const Obs none;
		constructNode(t, logger);
		observe(t);
		Op pseudo = *held; pseudo.kind = OP_ENTER;
		afterOp(t, pseudo, none);
		if (result.tainted) return;
		// recovery from the durable store: last snapshot, then the log
		if (!(s.node->caps() & CAP_SERIAL)) continue;
		if (storeHasSnapshot) applySnapshot(t, storeSnapshot, storeSnapshotObs, held, "recovery into a fresh instance");
		if (result.tainted || !result.violations.empty()) return;
		if ((s.node->caps() & CAP_HISTORY) && (storeHasSnapshot || (s.node->caps() & CAP_MANUAL)))
			for (auto& m : storeLog) { applyDelta(t, m, false); if (result.tainted) return; }
	}
	aCrashed = false;
	fault("restart");
	Slot& A = slots[size_t(iA)];
	if (wants("C09") && !storeBroken && (storeHasSnapshot || (A.node->caps() & CAP_MANUAL)) && (A.node->caps() & CAP_HISTORY) && (A.node->caps() & CAP_SERIAL)) {
		checked("C09.recovery");
		bool scheduleLogged = false; for (auto& m : storeLog) if (m.hadSchedule) scheduleLogged = true;      // a scheduling request is not part of the history: what it prepared is lost in the replay (documented)
		if (A.obs.activated != preCrash.activated || A.obs.active != preCrash.active)
			violate("C09.recovery", "A: snapshot + log replay did not bring the restarted authority back to its pre-crash active configuration (" + std::to_string(storeLog.size()) + " logged steps)", iA, scheduleLogged ? "unrecorded_schedule_changes_resolution" : "");
		else if (logExact && A.obs.resumable != preCrash.resumable)
			violate("C09.recovery", "A: recovery reproduced the active configuration but not the resumable sub-states although every logged step was single-round and schedule-free", iA);
	}
	Op pseudo = *held; pseudo.kind = OP_RESTART;
	crossCheck(pseudo);
	// the authority's sequence numbers continue; followers that were in step with the pre-crash state stay valid only if recovery was exact
	if (!A.obs.sameConfig(preCrash)) for (int f : followers) slots[size_t(f)].synced = false;
}

// ---- copies -------------------------------------------------------------------------------------------------------------

void World::doFork(const Op& op) {
	if (aCrashed || iC >= 0) return;
	Slot& A = slots[size_t(iA)];
	if (!A.obs.alive) return;
	const NodeFactory* f = findFactory(plan.wp.shape, plan.wp.config);
	if (!f) return;
	// reuse a vacated slot if there is one
	int ci = -1;
	for (size_t k = 0; k < slots.size(); ++k) if (!slots[k].node) { ci = int(k); break; }
	if (ci < 0) ci = addSlot(*f, "C", op.a & 3);
	else {
		Slot& s = slots[size_t(ci)];
		s.node.reset(f->make());
		s.h.reset(new Harness);
		s.h->world = this; s.h->index = ci; s.h->role = "C"; s.h->node = s.node.get(); s.h->shape = f->desc;
		s.h->respectQueue = !plan.wp.allowOverflow;
		s.arena.reset(new Arena);
		s.arena->make(s.node->instanceSize(), s.node->instanceAlign(), op.a & 3, mix64(plan.seed, op.uid));
	}
	iC = ci;
	Slot& C = slots[size_t(ci)];
	Slot& A2 = slots[size_t(iA)];
	C.h->role = "C";
	C.h->entered = A2.h->entered;
	C.extSuccess = A2.extSuccess; C.extFailure = A2.extFailure; C.appendsOk = A2.appendsOk; C.removals = A2.removals;
	C.h->loggerOn = A2.h->loggerOn;
	C.h->beginOp(&neutral);
	C.node->copyConstruct(C.arena->base, *A2.node, C.h.get());
	C.expectActivated = A2.expectActivated;
	observe(ci);
	checkAsserts(ci, op);
	fault("fork");
	if (result.tainted) return;
	if (wants("C10")) {
		checked("C10.copy");
		if (!C.obs.sameConfig(A2.obs) || C.obs.prev != A2.obs.prev || C.obs.queued != A2.obs.queued || C.obs.lastTo != A2.obs.lastTo || C.obs.plans != A2.obs.plans || C.obs.activity != A2.obs.activity || C.h->trace.size() != 0)
			violate("C10.copy", "a fresh copy does not report the same state as its original (or copying ran callbacks)", ci);
	}
}

void World::doKillOriginal(const Op& op) {
	if (aCrashed || iC < 0) return;
	Slot& A = slots[size_t(iA)];
	Slot& C = slots[size_t(iC)];
	const bool automatic = !(A.node->caps() & CAP_MANUAL);
	Op dtor; dtor.kind = OP_EXIT; dtor.uid = op.uid;
	const Op* held = holdOp(dtor, false);
	A.h->beginOp(held);
	A.node->destroy();
	checkAsserts(iA, *held);
	if (result.tainted) return;
	if (automatic && wants("C03")) {
		checked("C03.final");
		for (int k = 0; k < A.h->shape->n; ++k) if (A.h->entered[size_t(k)]) { violate("C03.final", "A: instance destroyed while state " + std::to_string(k) + " is still entered", iA); break; }
	}
	A.arena->poison();
	fault("original_destroyed");
	// the copy carries on as the authority; the old storage stays poisoned until the run ends
	std::swap(A.node, C.node); std::swap(A.h, C.h); std::swap(A.arena, C.arena); std::swap(A.obs, C.obs); std::swap(A.expectActivated, C.expectActivated);
	std::swap(A.extSuccess, C.extSuccess); std::swap(A.extFailure, C.extFailure);
	A.h->index = iA; A.h->role = "A";
	C.node.reset(); C.h.reset();
	// keep the poisoned arena alive in the vacated slot
	iC = -1;
}

} // namespace vf
