// engine.hpp -- the simulated world: operations with behaviour cards, harness records, roles, oracles.
#pragma once
#include "vf.hpp"
#include "json.hpp"
#include <map>
#include <set>
#include <array>
#include <functional>

namespace vf {

// ---- one PRNG decides everything ----------------------------------------------------------------

struct Rng {
	uint64_t s[4];
	static uint64_t splitmix(uint64_t& x) { uint64_t z = (x += 0x9E3779B97F4A7C15ull); z = (z ^ (z >> 30)) * 0xBF58476D1CE4E5B9ull; z = (z ^ (z >> 27)) * 0x94D049BB133111EBull; return z ^ (z >> 31); }
	explicit Rng(uint64_t seed = 1) { uint64_t x = seed; for (auto& v : s) v = splitmix(x); }
	static uint64_t rotl(uint64_t x, int k) { return (x << k) | (x >> (64 - k)); }
	uint64_t next() { const uint64_t r = rotl(s[1] * 5, 7) * 9, t = s[1] << 17; s[2] ^= s[0]; s[3] ^= s[1]; s[1] ^= s[2]; s[0] ^= s[3]; s[2] ^= t; s[3] = rotl(s[3], 45); return r; }
	uint32_t below(uint32_t n) { return n ? uint32_t(next() % n) : 0; }
	int range(int lo, int hi) { return lo + int(below(uint32_t(hi - lo + 1))); }
	bool chance(double p) { return (next() >> 11) * (1.0 / 9007199254740992.0) < p; }
	double unit() { return (next() >> 11) * (1.0 / 9007199254740992.0); }
	float unitf() { return float(next() >> 40) * (1.0f / 16777216.0f); }   // in [0,1)
	template <typename T> const T& pick(const std::vector<T>& v) { return v[below(uint32_t(v.size()))]; }
	int weighted(const std::vector<int>& w) { int t = 0; for (int x : w) t += x; if (t <= 0) return 0; int r = int(below(uint32_t(t))); for (size_t i = 0; i < w.size(); ++i) { if (r < w[i]) return int(i); r -= w[i]; } return 0; }
};
inline uint64_t mix64(uint64_t a, uint64_t b) { uint64_t x = a ^ (b + 0x9E3779B97F4A7C15ull + (a << 6) + (a >> 2)); return Rng::splitmix(x); }

// ---- operations --------------------------------------------------------------------------------------

enum OpKind : uint8_t {
	OP_UPDATE, OP_REACT, OP_QUERY, OP_REQUEST, OP_IMMEDIATE, OP_SUCCEED, OP_FAIL,
	OP_PLAN_APPEND, OP_PLAN_CLEAR, OP_PLAN_REMOVE, OP_RESET, OP_ENTER, OP_EXIT, OP_LOGGER,
	OP_SNAPSHOT, OP_DELIVER, OP_PERTURB, OP_CRASH, OP_RESTART, OP_FORK, OP_KILL_ORIGINAL, OP_PARTITION,
	OP_COUNT
};
const char* opName(int k);

enum ActType : uint8_t { A_REQUEST, A_SUCCEED, A_FAIL, A_CANCEL, A_CONSUME, A_PLAN_APPEND, A_PLAN_CLEAR, A_PLAN_REMOVE, A_NO_DEFAULT, A_COUNT };
const char* actName(int a);

struct Action {
	uint8_t type = A_REQUEST;
	int8_t  kind = K_CHANGE;
	int16_t a = 0, b = 0, c = 0;      // dest | state | region, origin, dest | region, index
	bool withPayload = false;
	int64_t payload = 0;
};

struct CardEntry {
	int16_t state = 0;
	uint8_t method = M_UPDATE;
	int8_t  occurrence = -1;          // k-th call of (state, method) in this op; -1: every call
	uint8_t injected = 0;             // acts in the injected handler instead of the state's own
	std::vector<Action> actions;
};

struct Resolver { int16_t state; int16_t select; int16_t rank; float utility; };

struct Op {
	uint32_t uid = 0;                     // stable identity: faults derived from it survive minimisation
	uint8_t kind = OP_UPDATE;
	int16_t a = 0, b = 0, c = 0, d = 0;   // meaning per kind (event id | kind, dest | region, kind, origin, dest | ...)
	bool withPayload = false;
	int64_t payload = 0;
	std::vector<CardEntry> card;
	std::vector<Resolver> res;            // overrides of the defaults (select 0, rank 0, utility 1)
	std::vector<float> rnd;               // numbers the generator serves during this op (last repeats)
};

struct WorldParams {
	std::string shape, config;            // factory of the authority
	std::string twinConfig;               // build twin ("" none)
	std::string peerConfig;               // follower type ("" same as authority)
	int followers = 0;
	bool twin = true;                     // determinism twin in differently filled memory
	bool twinLogger = true;               // twin mirrors logger attachment (false: never has one)
	int  fillA = 0, fillT = 1;            // arena fill patterns
	bool startLogger = true;
	uint32_t featureMask = 0xFFFFFFFFu;   // generation restricted to these capabilities
	int  maxQueue = -1;                   // -1: respect the queue capacity; >0 allow bursts up to this many beyond
	bool guardRequests = true;
	int  dropPct = 0, dupPct = 0, delayMax = 0;
	bool allowOverflow = false;           // C11 lens: bursts beyond capacity
	int  maxTasks = -1;                   // build twins with different task capacities: stay within the smaller one
	std::set<std::string> avoid;          // avoidance preconditions of open known findings
};

struct RunPlan {
	uint64_t seed = 0;
	std::string lens;
	WorldParams wp;
	std::vector<Op> ops;
};

js::Value toJson(const RunPlan& p);
bool fromJson(const js::Value& v, RunPlan& p);

// ---- trace --------------------------------------------------------------------------------------------

enum EvKind : uint8_t {
	EV_CB, EV_INJ, EV_RET,                 // callback (own / injected), resolver return (a = value, f = utility)
	EV_ISSUE, EV_SUCCEED, EV_FAIL, EV_CANCEL, EV_CONSUME, EV_PLAN_EDIT, EV_DEFAULT, EV_SKIP,
	EV_RNG,                                // f = value served
	EV_LOG_METHOD, EV_LOG_TRANSITION, EV_LOG_TASK, EV_LOG_PLAN, EV_LOG_CANCEL, EV_LOG_SELECT, EV_LOG_UTILITY, EV_LOG_RANDOM,
	EV_API                                 // boundary: a = op kind
};

struct Ev {
	uint8_t k = EV_CB, method = 0;
	int16_t state = -1;
	int32_t a = 0, b = 0, c = 0;
	float f = 0;
	int64_t p = 0;           // payload where relevant
	uint8_t hasP = 0;
	int16_t round = -1;      // guard callbacks: processing round index within the op
	bool same(const Ev& o) const {
		return k == o.k && method == o.method && state == o.state && a == o.a && b == o.b && c == o.c &&
		       std::memcmp(&f, &o.f, sizeof f) == 0 && p == o.p && hasP == o.hasP;
	}
};
std::string evStr(const Ev& e);

// a guard callback's view of the machine, kept for C04 / C13 / C14
struct GuardView {
	int state, method, round;
	std::vector<Tr> pending, current;
	std::vector<uint8_t> pendEnter, pendExit, pendChange;
	bool cancelled = false;       // this call cancelled
	int  evIndex = 0;
};

// what a state saw through its control while being entered / updated (C14)
struct CtlView { int state, method; bool has = false; Tr last; std::vector<Tr> current; };

struct Violation {
	std::string oracle;      // e.g. "C01.wellformed"
	std::string detail;
	std::string tag;         // finding tag when the circumstances match a documented pattern
	int opIndex = -1;
	int node = -1;
};

struct Obs {
	bool alive = false, activated = false;
	std::vector<uint8_t> active, resumable, structure;
	std::vector<int8_t>  sub;
	std::vector<int16_t> activity;
	std::vector<Tr> prev, queued;
	std::vector<std::vector<TaskV>> plans;
	std::vector<int> lastTo;      // per state: index into prev, -1 null, -2 dangling
	bool sameConfig(const Obs& o) const { return activated == o.activated && active == o.active && resumable == o.resumable; }
};

struct World;

struct Harness final : IHarness {
	World* world = nullptr;
	int index = -1;
	std::string role;
	INode* node = nullptr;
	const Shape* shape = nullptr;
	const Op* op = nullptr;             // operation whose card / resolvers / numbers are in force
	bool mute = false;                  // scratch copies: no cards, no probes, no trace
	bool loggerOn = false;
	bool inActivation = false;          // initial activation in progress: guards must not cancel
	bool inActivationSeen = false;      // a callback ran during an initial activation in the current op
	bool respectQueue = true;
	std::vector<Ev> trace;              // events of the current op
	std::vector<GuardView> guards;      // guard callbacks of the current op
	std::vector<CtlView> views;         // enter / update callbacks of the current op
	std::vector<const void*> selfs;     // per trace event (callbacks only) the object address
	std::vector<int> occ;               // occurrence counters per (state, method, injected)
	int rndIndex = 0;
	int round = -1;                     // current guard round
	std::set<std::pair<int,int>> roundSeen;
	bool roundHadEntry = false;
	std::vector<Tr> roundPending;
	uint64_t hash = 0;                  // rolling hash over the whole run
	std::vector<uint8_t> entered;       // C03 automaton
	long cbCount = 0;
	bool noDefaultNext = false;

	void beginOp(const Op* o);
	void push(const Ev& e, const void* self = nullptr);
	const Resolver* resolver(int state) const;

	void  onCallback(int state, int method, int injected, const void* self, ICtl& ctl) override;
	int   onSelect  (int state, const void* self, ICtl& ctl) override;
	int   onRank    (int state, const void* self, ICtl& ctl) override;
	float onUtility (int state, const void* self, ICtl& ctl) override;
	float nextRandom() override;
	void logMethod(int state, int method) override;
	void logTransition(int origin, int kind, int dest) override;
	void logTaskStatus(int region, int origin, int ok) override;
	void logPlanStatus(int region, int ok) override;
	void logCancelled(int origin) override;
	void logSelect(int head, int prong) override;
	void logUtility(int head, int prong, float u) override;
	void logRandom(int head, int prong, float r) override;
};

struct Arena {
	std::vector<uint8_t> raw;
	uint8_t* base = nullptr;
	size_t size = 0;
	void make(size_t bytes, size_t align, int fill, uint64_t seed);
	void poison();
	void unpoison();
	bool contains(const void* p) const { return p >= base && p < base + size; }
	bool zonesIntact() const;
	~Arena();
};

struct Slot {                 // a node in a role
	std::unique_ptr<INode> node;
	std::unique_ptr<Harness> h;
	std::unique_ptr<Arena> arena;
	Obs obs;                  // after the last op
	bool expectActivated = false;
	bool synced = true;       // followers: mirrors the authority's state key
	int  lastSeq = 0;         // followers: last applied message
	bool tainted = false;
	bool stepped = false;     // the last client op made the library process a step
	std::vector<uint8_t> extSuccess, extFailure;   // marks set from outside since the last step (they wait for the next update)
	long appendsOk = 0, removals = 0;
};

struct Message { int seq = 0; int kind = 0; /*0 delta 1 snapshot*/ int at = 0; int to = -1; std::vector<Tr> delta; std::vector<uint8_t> bytes; Obs src; Obs srcBefore; const Op* op = nullptr; int rounds = 0; bool hadSchedule = false; bool reliable = false; };

struct Coverage {
	long runs = 0, ops = 0, callbacks = 0, ticks = 0;
	std::map<std::string, long> faults;       // fired counters
	std::map<std::string, long> probes;       // rare-branch probes
	std::map<std::string, long> oracleChecks; // how often each oracle actually decided something
	std::set<uint64_t> distinct;              // lens-specific non-trivial tuples (hashed)
	std::set<uint64_t> configs;               // distinct (shape, configuration) reached
	std::vector<js::Value> samples;
	void merge(const Coverage& o);
	js::Value toJson() const;
};

struct RunResult {
	std::vector<Violation> violations;
	uint64_t hash = 0;
	bool tainted = false;     // a library assertion fired: state undefined from then on
	int opsExecuted = 0;
};

struct ModelHooks;   // reference-model oracles (model.cpp)

struct World {
	RunPlan plan;
	std::string lens;
	Coverage* cov = nullptr;
	bool collect = true;
	std::vector<Slot> slots;          // 0 = authority; then twin, copy, followers, build twin
	int iA = -1, iT = -1, iC = -1, iB = -1;
	std::vector<int> followers;
	std::vector<Message> net;
	bool partitioned = false;
	int seq = 0;
	int tick = 0;
	int opIndex = 0;
	// durable store
	bool storeHasSnapshot = false;
	std::vector<uint8_t> storeSnapshot;
	Obs storeSnapshotObs;
	std::vector<Message> storeLog;
	bool aCrashed = false;
	Obs preCrash;
	bool storeBroken = false;         // a step the history cannot express (reset, exit) happened since the snapshot
	bool logExact = true;             // every logged step so far was single-round and schedule-free
	Op neutral;                       // card-less operation used for infrastructure calls
	std::string assertTag(const std::string& expr) const;   // tag of the documented finding an assertion text belongs to ("" if none)
	long assertionsContinued = 0;
	int curNode = -1; int curOpKind = -1;   // what is executing (for attributing an assertion hit)
	void runBody();
	std::string circumstance;         // tag of the documented defect whose trigger is present in the current operation
	std::vector<AssertHit> asserts;
	RunResult result;
	std::vector<std::unique_ptr<Op>> heldOps;  // ops referenced by in-flight messages
	Rng netRng{1};

	World(const RunPlan& p, Coverage* c);
	~World();
	bool setup(std::string& err);
	RunResult run();

	// helpers
	bool lensIs(const char* id) const { return lens == id; }
	bool wants(const char* prop) const;     // is this property's oracle set enabled under the lens
	void violate(const std::string& oracle, const std::string& detail, int node = -1, const std::string& tag = "");
	void probe(const char* name) { if (cov && collect) ++cov->probes[name]; }
	void probe(const std::string& name) { probe(name.c_str()); }
	void fault(const char* name) { if (cov && collect) ++cov->faults[name]; }
	void checked(const char* oracle) { if (cov && collect) ++cov->oracleChecks[oracle]; }
	void distinct(uint64_t h) { if (cov && collect && cov->distinct.size() < 2000000) cov->distinct.insert(h); }

	int  addSlot(const NodeFactory& f, const std::string& role, int fill);
	void constructNode(int i, bool withLogger);
	void observe(int i);
	void apply(int i, const Op& op);             // one client op on one node
	void execOp(const Op& op);
	void afterOp(int i, const Op& op, const Obs& before);
	void crossCheck(const Op& op);
	void inCallbackProbes(Harness& h, int state, int method, ICtl& ctl);
	void checkWellFormed(int i, const char* oracle);
	void checkLifecycle(Harness& h, const Ev& e, const void* self);
	void checkLogger(int i, const Op& op, const Obs& before);
	void checkStructure(int i, const Op& op, const Obs& before, bool mustStep);
	void checkIdlePending(int i);
	void checkResumeProbe(int i);
	void checkAsserts(int i, const Op& op);
	void checkPayloads(int i, const Op& op, const Obs& before);
	void checkIssuedKinds(int i, const Op& op, const Obs& before);
	void checkPlansStorage(int i, const Op& op, const Obs& before);
	// replication
	void shipDelta(const Op& op, const Obs& before, int rounds, bool hadSchedule);
	void doSnapshot(const Op& op);
	void deliver(const Op& op);
	void applyMessage(int fi, Message& m);
	void applyDelta(int i, const Message& m, bool check);
	void applySnapshot(int i, const std::vector<uint8_t>& bytes, const Obs& src, const Op* op, const char* why);
	const Op* holdOp(const Op& op, bool keepCard);
	void doCrash(); void doRestart(const Op& op);
	void doFork(const Op& op); void doKillOriginal(const Op& op);
	void doPerturb(const Op& op);
};

// generation, execution, minimisation
RunPlan generate(uint64_t seed, const std::string& lens, const std::string& shape, const std::string& config,
                 const std::set<std::string>& avoid, const js::Value& options);
RunResult execute(const RunPlan& p, Coverage* cov);
RunPlan minimise(const RunPlan& p, const std::string& oracle, int* reruns);
const NodeFactory* findFactory(const std::string& shape, const std::string& config);
std::string propertyOf(const std::string& oracle);

} // namespace vf
