// engine_gen.cpp -- seeded generation of runs (world parameters, operations, cards, resolvers, random numbers) and ddmin.
#include "engine.hpp"
#include <algorithm>
#include <cmath>

namespace vf {

namespace {

struct Gen {
	Rng rng;
	const Shape& sh;
	uint32_t caps;
	std::string lens;
	const std::set<std::string>& avoid;
	bool guardRequests = true;
	int64_t nextPayload = 1000;
	uint32_t nextUid = 1;
	double cardDensity = 0.5;
	int rndStyle = 0;
	bool exoticUtility = false;
	std::vector<int> headed;     // states that have callbacks
	std::vector<int> regions;    // region head state ids
	std::vector<int> compoRegions;

	Gen(uint64_t seed, const Shape& s, uint32_t c, const std::string& l, const std::set<std::string>& av) : rng(seed), sh(s), caps(c), lens(l), avoid(av) {
		for (int k = 0; k < sh.n; ++k) { if (!sh.st[size_t(k)].headless) headed.push_back(k); if (sh.isRegion(k)) regions.push_back(k); if (sh.isCompo(k)) compoRegions.push_back(k); }
	}
	bool has(uint32_t c) const { return (caps & c) != 0; }
	bool is(const char* l) const { return lens == l; }

	int anyState() { return rng.range(0, sh.n - 1); }
	int destState() { return rng.chance(0.04) ? 0 : rng.range(1, sh.n - 1); }
	int destFor(int kind) { int d = destState(); if (kind == K_SCHEDULE && d == 0 && avoid.count("schedule_root")) d = rng.range(1, sh.n - 1); return d; }
	int headedState() { return headed[rng.below(uint32_t(headed.size()))]; }
	int regionId() { return sh.st[size_t(regions[rng.below(uint32_t(regions.size()))])].region; }

	int kind(bool allowSchedule) {
		std::vector<int> w = {30, 12, 14, 8, has(CAP_UTILITY) ? 8 : 0, has(CAP_UTILITY) ? 8 : 0, allowSchedule ? 8 : 0};
		if (is("C12")) { w[4] = has(CAP_UTILITY) ? 30 : 0; w[5] = has(CAP_UTILITY) ? 40 : 0; }
		// an anonymous head has no select()/rank()/utility() to consult: resolver-driven kinds are undefined for shapes with headless regions
		for (int r : regions) if (sh.st[size_t(r)].headless) { w[3] = 0; w[4] = 0; w[5] = 0; }
		return rng.weighted(w);
	}
	int64_t payload() { return nextPayload++; }

	Action requestAction() {
		Action a; a.type = A_REQUEST; a.kind = int8_t(kind(true)); a.a = int16_t(destFor(a.kind));
		if (has(CAP_PAYLOAD) && rng.chance(is("C14") ? 0.7 : 0.3)) { a.withPayload = true; a.payload = payload(); }
		return a;
	}
	Action planAppend() {
		Action a; a.type = A_PLAN_APPEND; a.a = int16_t(regionId());
		const int head = sh.regionHead[size_t(a.a)];
		// origin and destination inside the region most of the time
		auto inside = [&] { return rng.chance(0.85) ? rng.range(head + 1 < sh.n ? head + 1 : head, head + sh.st[size_t(head)].size - 1) : rng.range(1, sh.n - 1); };
		a.b = int16_t(inside()); a.c = int16_t(rng.chance(0.1) ? a.b : inside());
		a.kind = int8_t(kind(true));
		if (has(CAP_PAYLOAD) && rng.chance(is("C14") ? 0.5 : 0.3)) { a.withPayload = true; a.payload = payload(); }
		return a;
	}
	Action planEdit() {
		const int r = rng.weighted({70, 12, 18});
		if (r == 0) return planAppend();
		Action a;
		if (r == 1) { a.type = A_PLAN_CLEAR; a.a = int16_t(regionId()); }
		else { a.type = A_PLAN_REMOVE; a.a = int16_t(regionId()); a.b = int16_t(rng.range(0, 3)); }
		return a;
	}
	Action statusAction() {
		Action a; a.type = rng.chance(0.7) ? A_SUCCEED : A_FAIL;
		a.a = int16_t(rng.chance(0.7) ? -1 : rng.range(1, sh.n - 1));
		return a;
	}

	void cardFor(Op& op) {
		std::vector<int> methods;
		std::vector<int> weights;
		auto add = [&](int m, int w) { methods.push_back(m); weights.push_back(w); };
		const bool plans = has(CAP_PLANS);
		switch (op.kind) {
		case OP_UPDATE: add(M_PRE_UPDATE, 12); add(M_UPDATE, 30); add(M_POST_UPDATE, 12); add(M_ENTRY_GUARD, 12); add(M_EXIT_GUARD, 12); add(M_ENTER, 6); add(M_EXIT, 5); add(M_REENTER, 2); if (plans) { add(M_PLAN_SUCCEEDED, 5); add(M_PLAN_FAILED, 4); } break;
		case OP_REACT: add(M_PRE_REACT, 14); add(M_REACT, 30); add(M_POST_REACT, 14); add(M_ENTRY_GUARD, 12); add(M_EXIT_GUARD, 12); add(M_ENTER, 5); add(M_EXIT, 5); if (plans) { add(M_PLAN_SUCCEEDED, 4); add(M_PLAN_FAILED, 4); } break;
		case OP_QUERY: add(M_QUERY, 10); break;
		case OP_IMMEDIATE: case OP_PERTURB: add(M_ENTRY_GUARD, 30); add(M_EXIT_GUARD, 30); add(M_ENTER, 10); add(M_EXIT, 10); add(M_REENTER, 5); break;
		case OP_ENTER: case OP_RESTART: add(M_ENTRY_GUARD, 20); add(M_ENTER, 20); break;
		case OP_EXIT: case OP_RESET: add(M_EXIT, 20); add(M_ENTER, 10); break;
		default: return;
		}
		double density = cardDensity;
		if (op.kind == OP_QUERY) density *= 0.6;
		int n = 0;
		while (rng.chance(density) && n < 5) ++n;
		for (int k = 0; k < n; ++k) {
			CardEntry e;
			e.state = int16_t(headedState());
			e.method = uint8_t(methods[size_t(rng.weighted(weights))]);
			e.occurrence = int8_t(rng.chance(0.6) ? -1 : rng.range(0, 2));
			if (sh.st[size_t(e.state)].injected && rng.chance(0.35) && e.method != M_PLAN_SUCCEEDED && e.method != M_PLAN_FAILED) e.injected = 1;
			const int m = e.method;
			const int na = rng.weighted({0, 70, 22, 8});
			for (int j = 0; j < na; ++j) {
				if (m == M_ENTRY_GUARD || m == M_EXIT_GUARD) {
					const int c = rng.weighted({35, guardRequests ? 30 : 0, plans ? 8 : 0, plans ? 6 : 0});
					if (c == 0) { Action a; a.type = A_CANCEL; e.actions.push_back(a); if (rng.chance(0.15)) e.actions.push_back(a); }
					else if (c == 1) { e.actions.push_back(requestAction()); if (rng.chance(0.5)) { Action a; a.type = A_CANCEL; e.actions.push_back(a); } }
					else if (c == 2) e.actions.push_back(statusAction());
					else e.actions.push_back(planEdit());
				} else if (m == M_ENTER || m == M_EXIT || m == M_REENTER) {
					if (plans) e.actions.push_back(planEdit());
				} else if (m == M_QUERY) {
					Action a; a.type = A_CONSUME; e.actions.push_back(a);
				} else if (m == M_PLAN_SUCCEEDED || m == M_PLAN_FAILED) {
					const int c = rng.weighted({50, 30, 20});
					if (c == 0) { Action a; a.type = A_NO_DEFAULT; e.actions.push_back(a); }
					else if (c == 1) e.actions.push_back(requestAction());
					else e.actions.push_back(planEdit());
				} else {
					const bool react = m == M_PRE_REACT || m == M_REACT || m == M_POST_REACT;
					const int c = rng.weighted({is("C05") ? 15 : 50, plans ? (is("C06") ? 45 : 18) : 0, react ? (is("C05") ? 60 : 20) : 0, plans ? 10 : 0});
					if (c == 0) e.actions.push_back(requestAction());
					else if (c == 1) e.actions.push_back(statusAction());
					else if (c == 2) { Action a; a.type = A_CONSUME; e.actions.push_back(a); }
					else e.actions.push_back(planEdit());
				}
			}
			if (!e.actions.empty()) op.card.push_back(e);
		}
	}

	bool tieMode = false; float tieA = 1.0f, tieB = 1.0f;     // C15: all utilities of an operation from a palette of two, so that sums, means and products tie mathematically and only rounding order can tell them apart
	float utilityValue(bool allowZero) {
		if (tieMode) return rng.chance(0.5) ? tieA : tieB;
		static const float plain[] = {1.0f, 0.5f, 2.0f, 0.25f, 3.0f, 0.75f, 1.5f, 0.1f, 0.7f, 0.3f};
		static const float exotic[] = {1e-6f, 1e6f, 1e-30f, 1e-40f, 16777216.0f, 0.333333343f, 1.00000012f, 5.9604645e-8f};
		if (allowZero && rng.chance(0.25)) return 0.0f;
		if (exoticUtility && rng.chance(0.3)) return exotic[rng.below(8)];
		return plain[rng.below(10)];
	}

	void resolversFor(Op& op) {
		tieMode = lens == "C15" && rng.chance(0.3);
		if (tieMode) { static const float pal[] = {0.1f, 0.3f, 0.7f, 0.9f, 1.1f, 0.6f, 0.2f, 1.7f}; tieA = pal[rng.below(8)]; tieB = rng.chance(0.5) ? tieA : pal[rng.below(8)]; }
		bool any = false;
		for (int r : compoRegions) if (sh.st[size_t(r)].strategy >= 2) any = true;
		if (!any) return;
		// Selectable heads: an index below the width; optionally never a region (avoidance of a documented defect)
		for (int r : compoRegions) {
			if (sh.st[size_t(r)].strategy != 2) continue;
			std::vector<int> ok;
			for (int k = 0; k < sh.st[size_t(r)].width; ++k) if (!(avoid.count("select_names_region") && sh.isRegion(sh.kids[size_t(r)][size_t(k)]))) ok.push_back(k);
			if (ok.empty()) ok.push_back(0);
			const int v = ok[rng.below(uint32_t(ok.size()))];
			if (v != 0) op.res.push_back(Resolver{int16_t(r), int16_t(v), 0, 1.0f});
		}
		if (!has(CAP_UTILITY)) return;
		// ranks and utilities: positive everywhere except optional zeros on non-anchor leaf children of Utilitarian / Random regions
		std::vector<int> rank(size_t(sh.n), 0); std::vector<float> util(size_t(sh.n), 1.0f); std::vector<uint8_t> set(size_t(sh.n), 0);
		for (int r : compoRegions) {
			const int strat = sh.st[size_t(r)].strategy;
			if (strat != 3 && strat != 4) continue;
			const auto& kids = sh.kids[size_t(r)];
			int top = -100;
			for (int c : kids) { rank[size_t(c)] = rng.weighted({55, 25, 20}) - (rng.chance(0.2) ? 1 : 0); top = std::max(top, rank[size_t(c)]); set[size_t(c)] = 1; }
			std::vector<int> tops; for (int c : kids) if (rank[size_t(c)] == top) tops.push_back(c);
			const int anchor = tops[rng.below(uint32_t(tops.size()))];
			for (int c : kids) util[size_t(c)] = utilityValue(c != anchor && !sh.isRegion(c));
		}
		// heads and deeper states that take part in products
		for (int s = 0; s < sh.n; ++s) if (!set[size_t(s)] && rng.chance(0.3)) { util[size_t(s)] = utilityValue(false); set[size_t(s)] = 1; }
		// products along a path must not underflow in float: a positive utility that multiplies out to zero leaves the property's domain (positive top-rank sum)
		{ std::vector<double> small(size_t(sh.n), 1.0);
		  for (int s = 0; s < sh.n; ++s) {
			const int par = sh.st[size_t(s)].parent;
			const double ps = par >= 0 ? small[size_t(par)] : 1.0;
			const float u = sh.st[size_t(s)].headless ? 1.0f : util[size_t(s)];
			if (u > 0 && u < 1 && ps * double(u) < 1e-33) util[size_t(s)] = 1.0f;
			const float u2 = sh.st[size_t(s)].headless ? 1.0f : util[size_t(s)];
			small[size_t(s)] = ps * ((u2 > 0 && u2 < 1) ? double(u2) : 1.0);
		  } }
		for (int s = 0; s < sh.n; ++s) {
			if (!set[size_t(s)]) continue;
			if (rank[size_t(s)] == 0 && util[size_t(s)] == 1.0f) continue;
			bool merged = false;
			for (auto& x : op.res) if (x.state == s) { x.rank = int16_t(rank[size_t(s)]); x.utility = util[size_t(s)]; merged = true; }
			if (!merged) op.res.push_back(Resolver{int16_t(s), 0, int16_t(rank[size_t(s)]), util[size_t(s)]});
		}
	}

	void randomsFor(Op& op) {
		if (!has(CAP_UTILITY) || !sh.usesUtility) return;
		const int n = (is("C10") || is("C11") || is("C04")) && rng.chance(0.4) ? rng.range(2, 3) : 1;   // the model attributes one number to every draw of an operation (C04 has no clause that reads the draws: a second resolution of the same region then gives another answer)
		for (int k = 0; k < n; ++k) {
			float v;
			switch (rng.weighted({50, 10, 14, 10, 8, 8})) {
			case 1: v = 0.0f; break;
			case 2: v = 1.0f - 5.9604645e-8f; break;                        // largest float below 1
			case 3: v = float(rng.range(1, 7)) / 8.0f; break;               // exact fractions: boundaries of simple utility vectors
			case 4: v = std::nextafter(float(rng.range(1, 7)) / 8.0f, 0.0f); break;
			case 5: v = 1.0f - 1.1920929e-7f; break;                        // 1 - 2^-23
			default: v = rng.unitf(); break;
			}
			op.rnd.push_back(v);
		}
	}

	void decorate(Op& op) {
		op.uid = nextUid++;
		cardFor(op);
		if (op.kind == OP_UPDATE || op.kind == OP_REACT || op.kind == OP_IMMEDIATE || op.kind == OP_ENTER || op.kind == OP_RESET || op.kind == OP_RESTART || op.kind == OP_PERTURB) {
			resolversFor(op);
			randomsFor(op);
		}
	}
};

} // namespace

RunPlan generate(uint64_t seed, const std::string& lens, const std::string& shape, const std::string& config,
                 const std::set<std::string>& avoid, const js::Value& options) {
	RunPlan p; p.seed = seed; p.lens = lens;
	p.wp.shape = shape; p.wp.config = config; p.wp.avoid = avoid;
	const NodeFactory* f = findFactory(shape, config);
	if (!f) return p;
	uint32_t caps = f->caps;
	if (options.has("twin")) {
		p.wp.twinConfig = options.at("twin").asStr();
		if (const NodeFactory* ft = findFactory(shape, p.wp.twinConfig)) {
			const uint32_t common = caps & ft->caps;
			const uint32_t keep = CAP_PLANS | CAP_SERIAL | CAP_HISTORY | CAP_REPORT | CAP_UTILITY | CAP_PAYLOAD | CAP_LOG;
			caps = (caps & ~keep) | (common & keep);
			if ((f->caps & CAP_BIGPAYLOAD) != (ft->caps & CAP_BIGPAYLOAD)) caps &= ~uint32_t(CAP_PAYLOAD);
		} else p.wp.twinConfig.clear();
	}
	p.wp.featureMask = caps | ~uint32_t(CAP_PLANS | CAP_SERIAL | CAP_HISTORY | CAP_REPORT | CAP_UTILITY | CAP_PAYLOAD | CAP_LOG);
	Gen g(seed, *f->desc, caps, lens, avoid);
	Rng& r = g.rng;
	const bool L = lens == "ALL";
	auto is = [&](const char* x) { return lens == x; };

	p.wp.twin = L || is("C10") || is("C16") || (is("C11") && r.chance(0.5));
	p.wp.twinLogger = !(is("C16") && r.chance(0.6));
	p.wp.fillA = r.range(0, 3); p.wp.fillT = (p.wp.fillA + r.range(1, 3)) & 3;
	p.wp.startLogger = r.chance(0.7);
	const bool repl = (caps & CAP_SERIAL) || (caps & CAP_HISTORY);
	if (repl && (L || is("C08") || is("C09") || ((is("C01") || is("C03") || is("C11") || is("C10")) && r.chance(0.4)))) p.wp.followers = r.range(1, 2);
	if (caps & CAP_BUILTIN_RNG) p.wp.followers = 0;   // replicas cannot share the built-in generator's state: replay of random choices is not comparable
	if (options.has("peer") && p.wp.followers > 0 && r.chance(0.5)) p.wp.peerConfig = options.at("peer").asStr();
	p.wp.dropPct = r.pick(std::vector<int>{0, 0, 15, 35});
	p.wp.dupPct = r.pick(std::vector<int>{0, 0, 15});
	p.wp.delayMax = r.pick(std::vector<int>{0, 0, 2, 4});
	p.wp.allowOverflow = is("C11") && !avoid.count("queue_overflow") && r.chance(0.3);
	g.cardDensity = r.pick(std::vector<double>{0.15, 0.4, 0.6, 0.75});
	g.exoticUtility = is("C12") && r.chance(0.5);
	// substitution limits differ between build twins: guards may veto but not substitute
	p.wp.maxTasks = options.has("maxTasks") ? int(options.at("maxTasks").asInt()) : -1;
	bool guardReq = !options.at("noGuardRequests").asBool(false);
	p.wp.guardRequests = guardReq; g.guardRequests = guardReq;

	// operation mix (swarm: some kinds switched off per run)
	std::vector<int> w(OP_COUNT, 0);
	const bool manual = (caps & CAP_MANUAL) != 0, plans = (caps & CAP_PLANS) != 0, logc = (caps & CAP_LOG) != 0;
	w[OP_UPDATE] = 26; w[OP_REACT] = 10; w[OP_QUERY] = 4; w[OP_REQUEST] = 22; w[OP_IMMEDIATE] = 14;
	w[OP_SUCCEED] = plans ? 5 : 0; w[OP_FAIL] = plans ? 3 : 0; w[OP_PLAN_APPEND] = plans ? 8 : 0; w[OP_PLAN_CLEAR] = plans ? 2 : 0; w[OP_PLAN_REMOVE] = plans ? 2 : 0;
	w[OP_RESET] = 2; w[OP_ENTER] = manual ? 3 : 0; w[OP_EXIT] = manual ? 2 : 0; w[OP_LOGGER] = logc ? 2 : 0;
	if (p.wp.followers > 0) { w[OP_SNAPSHOT] = (caps & CAP_SERIAL) ? 7 : 0; w[OP_DELIVER] = 16; w[OP_PERTURB] = 4; w[OP_PARTITION] = 2; }
	if ((caps & CAP_SERIAL) && (L || is("C08") || is("C09") || is("C03") || is("C10") || is("C01"))) { w[OP_SNAPSHOT] = std::max(w[OP_SNAPSHOT], 4); w[OP_CRASH] = 2; w[OP_RESTART] = 3; }
	if (L || is("C10") || is("C11") || is("C03")) { w[OP_FORK] = 2; w[OP_KILL_ORIGINAL] = 2; }
	if ((caps & CAP_BUILTIN_RNG) && avoid.count("copy_shares_builtin_rng")) { w[OP_FORK] = 0; w[OP_KILL_ORIGINAL] = 0; }
	if (caps & CAP_BUILTIN_RNG) { w[OP_CRASH] = 0; w[OP_RESTART] = 0; }
	if (is("C05")) { w[OP_REACT] = 30; w[OP_QUERY] = 18; w[OP_UPDATE] = 20; }
	if (is("C06") || is("C07") || is("C19")) { w[OP_EXIT] = manual ? 7 : 0; w[OP_ENTER] = manual ? 9 : 0; w[OP_PLAN_APPEND] = plans ? 26 : 0; w[OP_SUCCEED] = plans ? 12 : 0; w[OP_FAIL] = plans ? 5 : 0; w[OP_PLAN_REMOVE] = plans ? 6 : 0; w[OP_PLAN_CLEAR] = plans ? 4 : 0; }
	if (is("C10")) { w[OP_PLAN_APPEND] = plans ? 14 : 0; w[OP_SUCCEED] = plans ? 10 : 0; }    // storage the pool hands out: payload-less and payload-carrying tasks in fresh and recycled slots of differently pre-filled twins
	if (is("C14")) { w[OP_PLAN_APPEND] = plans ? 18 : 0; w[OP_SUCCEED] = plans ? 12 : 0; w[OP_PLAN_CLEAR] = plans ? 3 : 0; w[OP_PLAN_REMOVE] = plans ? 3 : 0; }    // payload-carrying and payload-less tasks through recycled pool slots
	if (is("C16")) { w[OP_LOGGER] = logc ? 6 : 0; w[OP_UPDATE] = 40; }
	if (is("C08")) { w[OP_SNAPSHOT] = 14; w[OP_PERTURB] = 10; w[OP_DELIVER] = 20; }
	if (is("C12")) { w[OP_IMMEDIATE] = 30; w[OP_REQUEST] = 25; }
	if (is("C15")) { w[OP_SNAPSHOT] = w[OP_DELIVER] = w[OP_PERTURB] = w[OP_CRASH] = w[OP_RESTART] = w[OP_FORK] = w[OP_KILL_ORIGINAL] = w[OP_PARTITION] = 0; }
	for (int k = OP_REACT; k < OP_COUNT; ++k) if (k != OP_DELIVER && r.chance(0.12)) w[size_t(k)] = 0;

	int nOps;
	switch (r.weighted({40, 40, 20})) { case 0: nOps = r.range(3, 8); break; case 1: nOps = r.range(9, 25); break; default: nOps = r.range(26, 60); break; }
	if (is("C16") && r.chance(0.12)) nOps = r.range(280, 560);     // long tick runs (request + update pairs): activity counters saturate
	const int longRun = nOps > 100;
	if (manual) { Op o; o.kind = OP_ENTER; g.decorate(o); p.ops.push_back(o); }
	// directed prefix (C06): a plan-owning region nested in another; the inner plan runs empty while the outer one still waits for a state inside the inner
	// region. Everything after it is the usual random mix.
	if (is("C06") && plans && r.chance(0.12)) {
		const Shape& sh = g.sh;
		std::vector<std::pair<int,int>> nests;   // (outer head, inner head): inner is a composite-style region with two plain sub-states, directly below a composite-style outer
		for (int in = 1; in < sh.n; ++in) {
			if (!sh.isCompo(in) || sh.st[size_t(in)].headless) continue;
			const int out = sh.st[size_t(in)].parent;
			if (out < 0 || !sh.isCompo(out)) continue;
			int leaves = 0; for (int c : sh.kids[size_t(in)]) if (!sh.isRegion(c)) ++leaves;
			if (leaves >= 2) nests.emplace_back(out, in);
		}
		if (!nests.empty()) {
			const auto pr = nests[r.below(uint32_t(nests.size()))];
			std::vector<int> lv; for (int c : sh.kids[size_t(pr.second)]) if (!sh.isRegion(c)) lv.push_back(c);
			const int a = lv[0], b = lv[1];
			std::vector<int> dests; for (int c : sh.kids[size_t(pr.first)]) dests.push_back(c);
			const int d = dests[r.below(uint32_t(dests.size()))];
			auto push = [&](Op o) { g.decorate(o); p.ops.push_back(o); };
			auto selfSucceed = [&](int state) { Op u; u.kind = OP_UPDATE; g.decorate(u); u.card.clear(); CardEntry e; e.state = int16_t(state); e.method = M_UPDATE; e.occurrence = 0; Action ac; ac.type = A_SUCCEED; ac.a = -1; e.actions.push_back(ac); u.card.push_back(e); p.ops.push_back(u); };
			{ Op o; o.kind = OP_IMMEDIATE; o.a = K_CHANGE; o.b = int16_t(a); push(o); p.ops.back().card.clear(); }
			{ Op o; o.kind = OP_PLAN_APPEND; o.a = int16_t(sh.st[size_t(pr.second)].region); o.b = K_CHANGE; o.c = int16_t(a); o.d = int16_t(b); push(o); }
			{ Op o; o.kind = OP_PLAN_APPEND; o.a = int16_t(sh.st[size_t(pr.first)].region); o.b = K_CHANGE; o.c = int16_t(b); o.d = int16_t(d); push(o); }
			selfSucceed(a);
			selfSucceed(b);
		}
	}
	// directed prefix (C04): a round that is approved although one of its entry guards asks for something else, followed by a round that is vetoed; in between a
	// scheduling request moves what a second resolution of the approved request would pick. Nothing of the approved round may be done over.
	if (is("C04") && p.wp.guardRequests && r.chance(0.1)) {
		const Shape& sh = g.sh;
		std::vector<int> cands;
		for (int x = 1; x < sh.n; ++x) if (sh.isCompo(x) && !sh.st[size_t(x)].headless && sh.st[size_t(x)].strategy == 1 && sh.st[size_t(x)].prong != 0 && sh.st[size_t(x)].width >= 2 && sh.isCompo(sh.st[size_t(x)].parent)) cands.push_back(x);
		if (!cands.empty()) {
			const int reg = cands[r.below(uint32_t(cands.size()))];
			int t = -1; for (int x = 1; x < sh.n && t < 0; ++x) if (!sh.inSubtree(x, reg) && !sh.inSubtree(reg, x) && !sh.st[size_t(x)].headless && sh.st[size_t(x)].parent == sh.st[size_t(reg)].parent) t = x;
			if (t >= 0) {
				const int other = sh.kids[size_t(reg)][1];
				{ Op o; o.kind = OP_REQUEST; o.a = K_CHANGE; o.b = int16_t(reg); g.decorate(o); o.card.clear(); p.ops.push_back(o); }
				{ Op u; u.kind = OP_UPDATE; g.decorate(u); u.card.clear();
				  CardEntry e1; e1.state = int16_t(reg); e1.method = M_ENTRY_GUARD; e1.occurrence = -1;
				  Action a1; a1.type = A_REQUEST; a1.kind = K_SCHEDULE; a1.a = int16_t(other); e1.actions.push_back(a1);
				  Action a2; a2.type = A_REQUEST; a2.kind = K_CHANGE; a2.a = int16_t(t); e1.actions.push_back(a2);
				  u.card.push_back(e1);
				  CardEntry e2; e2.state = int16_t(t); e2.method = M_ENTRY_GUARD; e2.occurrence = -1; Action a3; a3.type = A_CANCEL; e2.actions.push_back(a3); u.card.push_back(e2);
				  p.ops.push_back(u); }
			}
		}
	}
	for (int k = 0; k < nOps; ++k) {
		Op o;
		o.kind = uint8_t(longRun && r.chance(0.85) ? (k % 2 ? OP_UPDATE : OP_REQUEST) : r.weighted(w));
		switch (o.kind) {
		case OP_REACT: o.a = int16_t(r.range(0, 1)); break;
		case OP_REQUEST: o.a = int16_t(g.kind(true)); o.b = int16_t(g.destFor(o.a)); break;
		case OP_IMMEDIATE: o.a = int16_t(g.kind(false)); o.b = int16_t(g.destState()); break;
		case OP_PERTURB: o.a = int16_t(g.kind(false)); o.b = int16_t(r.range(1, g.sh.n - 1)); o.c = int16_t(r.range(0, 3)); break;
		case OP_SUCCEED: case OP_FAIL: o.a = int16_t(r.range(1, g.sh.n - 1)); break;
		case OP_PLAN_APPEND: { Action a = g.planAppend(); o.a = a.a; o.b = a.kind; o.c = a.b; o.d = a.c; o.withPayload = a.withPayload; o.payload = a.payload; break; }
		case OP_PLAN_CLEAR: o.a = int16_t(g.regionId()); break;
		case OP_PLAN_REMOVE: o.a = int16_t(g.regionId()); o.b = int16_t(r.range(0, 3)); break;
		case OP_LOGGER: case OP_PARTITION: o.a = int16_t(r.range(0, 1)); break;
		case OP_DELIVER: o.a = int16_t(r.range(0, 5)); break;
		case OP_SNAPSHOT: o.a = int16_t(r.range(0, 1)); if (p.wp.followers > 0) o.a = 1; break;
		case OP_CRASH: case OP_RESTART: case OP_FORK: case OP_KILL_ORIGINAL: o.a = int16_t(r.range(0, 3)); break;
		default: break;
		}
		if ((o.kind == OP_REQUEST || o.kind == OP_IMMEDIATE) && (caps & CAP_PAYLOAD) && r.chance(is("C14") ? 0.7 : 0.3)) { o.withPayload = true; o.payload = g.payload(); }
		g.decorate(o);
		p.ops.push_back(o);
		// a request is usually followed by the step that processes it; a crash by a restart
		if (o.kind == OP_REQUEST && r.chance(0.5)) { Op u; u.kind = OP_UPDATE; g.decorate(u); p.ops.push_back(u); }
		if (o.kind == OP_CRASH && r.chance(0.9)) { Op u; u.kind = OP_RESTART; u.a = int16_t(r.range(0, 3)); g.decorate(u); p.ops.push_back(u); }
		if (o.kind == OP_FORK && r.chance(0.5)) { Op u; u.kind = OP_KILL_ORIGINAL; g.decorate(u); p.ops.push_back(u); }
		if (p.wp.allowOverflow && o.kind == OP_REQUEST && r.chance(0.3)) { const int n = r.range(2, g.sh.compoCount + 3); for (int j = 0; j < n; ++j) { Op b; b.kind = OP_REQUEST; b.a = int16_t(g.kind(true)); b.b = int16_t(g.destFor(b.a)); g.decorate(b); p.ops.push_back(b); } }
	}
	return p;
}

// ---- minimisation: ddmin over operations, then simplification inside operations ----------------------------------------------

// a reduced plan must stay inside the documented input domain: every Utilitarian / Random region keeps a positive utility sum among its
// top-rank sub-states in every operation (dropping the resolver that ranked the positive sub-state highest would leave only zeros on top)
static bool inDomain(const RunPlan& p) {
	const NodeFactory* f = findFactory(p.wp.shape, p.wp.config);
	if (!f) return true;
	const Shape& sh = *f->desc;
	for (auto& op : p.ops) {
		if (op.res.empty()) continue;
		for (int r = 0; r < sh.n; ++r) {
			if (!sh.isCompo(r) || (sh.st[size_t(r)].strategy != 3 && sh.st[size_t(r)].strategy != 4)) continue;
			int top = -1000000; double sum = 0;
			auto rk = [&](int s) { for (auto& x : op.res) if (x.state == s) return int(x.rank); return 0; };
			auto ut = [&](int s) { for (auto& x : op.res) if (x.state == s) return double(x.utility); return 1.0; };
			for (int c : sh.kids[size_t(r)]) top = std::max(top, sh.st[size_t(c)].headless ? 0 : rk(c));
			for (int c : sh.kids[size_t(r)]) if ((sh.st[size_t(c)].headless ? 0 : rk(c)) == top) sum += sh.st[size_t(c)].headless ? 1.0 : ut(c);
			if (!(sum > 0)) return false;
		}
	}
	return true;
}

static bool failsSame(const RunPlan& p, const std::string& oracle, int* reruns) {
	if (!inDomain(p)) return false;
	++*reruns;
	RunResult r = execute(p, nullptr);
	for (auto& v : r.violations) if (v.oracle == oracle) return true;
	return false;
}

RunPlan minimise(const RunPlan& start, const std::string& oracle, int* reruns) {
	RunPlan best = start;
	const int budget = 600;
	// 1. ddmin over ops
	size_t chunk = std::max<size_t>(1, best.ops.size() / 2);
	while (chunk >= 1 && *reruns < budget) {
		bool removed = false;
		for (size_t at = 0; at < best.ops.size() && *reruns < budget;) {
			RunPlan c = best;
			const size_t end = std::min(best.ops.size(), at + chunk);
			c.ops.erase(c.ops.begin() + long(at), c.ops.begin() + long(end));
			if (failsSame(c, oracle, reruns)) { best = c; removed = true; }
			else at += chunk;
		}
		if (chunk == 1 && !removed) break;
		if (!removed || chunk > 1) chunk = chunk > 1 ? chunk / 2 : 1;
	}
	// 2. world: fewer roles and faults
	auto tryWorld = [&](std::function<void(RunPlan&)> f) { if (*reruns >= budget) return; RunPlan c = best; f(c); if (failsSame(c, oracle, reruns)) best = c; };
	tryWorld([](RunPlan& c) { c.wp.followers = 0; });
	tryWorld([](RunPlan& c) { if (c.wp.followers > 1) c.wp.followers = 1; });
	tryWorld([](RunPlan& c) { c.wp.twin = false; });
	tryWorld([](RunPlan& c) { c.wp.dropPct = 0; c.wp.dupPct = 0; c.wp.delayMax = 0; });
	tryWorld([](RunPlan& c) { c.wp.peerConfig.clear(); });
	tryWorld([](RunPlan& c) { c.wp.startLogger = false; });
	// 3. inside ops: drop card entries, actions, resolvers, random numbers
	for (size_t i = 0; i < best.ops.size() && *reruns < budget; ++i) {
		if (!best.ops[i].card.empty()) { RunPlan c = best; c.ops[i].card.clear(); if (failsSame(c, oracle, reruns)) { best = c; } }
		for (size_t k = 0; k < best.ops[i].card.size() && *reruns < budget;) {
			RunPlan c = best; c.ops[i].card.erase(c.ops[i].card.begin() + long(k));
			if (failsSame(c, oracle, reruns)) best = c; else ++k;
		}
		for (size_t k = 0; k < best.ops[i].card.size() && *reruns < budget; ++k)
			for (size_t a = 0; best.ops[i].card[k].actions.size() > 1 && a < best.ops[i].card[k].actions.size() && *reruns < budget;) {
				RunPlan c = best; c.ops[i].card[k].actions.erase(c.ops[i].card[k].actions.begin() + long(a));
				if (failsSame(c, oracle, reruns)) best = c; else ++a;
			}
		if (!best.ops[i].res.empty()) { RunPlan c = best; c.ops[i].res.clear(); if (failsSame(c, oracle, reruns)) best = c; }
		for (size_t k = 0; k < best.ops[i].res.size() && *reruns < budget;) {
			RunPlan c = best; c.ops[i].res.erase(c.ops[i].res.begin() + long(k));
			if (failsSame(c, oracle, reruns)) best = c; else ++k;
		}
		if (!best.ops[i].rnd.empty()) { RunPlan c = best; c.ops[i].rnd.clear(); if (failsSame(c, oracle, reruns)) best = c; }
		if (best.ops[i].withPayload) { RunPlan c = best; c.ops[i].withPayload = false; if (failsSame(c, oracle, reruns)) best = c; }
	}
	return best;
}

} // namespace vf
