// model.cpp -- reference-model oracles: a small interpretive tree walk over the shape descriptor, written from the
// property statements. Inputs are what the harness observed (requests issued, guard verdicts, resolver returns, numbers served).
#include "model.hpp"
#include <algorithm>
#include <cmath>
#include <cstdio>
#include <map>

namespace vf {

namespace {

struct Round { std::vector<Tr> pending; bool cancelled = false; int firstEv = -1, lastEv = -1; std::vector<int> guardEvs; };

struct Step {
	std::vector<Round> rounds;
	std::vector<Tr> approved;        // requests of the rounds nobody vetoed, in order
	std::vector<Tr> phantom;         // requests the guards of the last observed round issued: a further round may have run without consulting anyone
	bool phantomReal = false;
	int firstLifecycle = -1;         // index of the first enter/exit/reenter callback
	int lastGuard = -1;
	bool anyIssue = false;
};

bool isLifecycle(int m) { return m == M_ENTER || m == M_EXIT || m == M_REENTER; }
bool isGuardM(int m) { return m == M_ENTRY_GUARD || m == M_EXIT_GUARD; }

Step analyse(const Harness& h) {
	Step st;
	for (const GuardView& g : h.guards) {
		if (g.round >= int(st.rounds.size())) st.rounds.resize(size_t(g.round) + 1);
		Round& r = st.rounds[size_t(g.round)];
		if (r.firstEv < 0) { r.firstEv = g.evIndex; r.pending = g.pending; }
		r.lastEv = g.evIndex;
		r.guardEvs.push_back(g.evIndex);
	}
	// cancellations (own or injected handlers) belong to the round of the enclosing guard callback
	int curRound = -1;
	for (size_t k = 0; k < h.trace.size(); ++k) {
		const Ev& e = h.trace[k];
		if ((e.k == EV_CB || e.k == EV_INJ) && isGuardM(e.method)) { curRound = e.round; st.lastGuard = int(k); }
		if (e.k == EV_CANCEL && curRound >= 0 && curRound < int(st.rounds.size())) st.rounds[size_t(curRound)].cancelled = true;
		if (e.k == EV_CB && isLifecycle(e.method) && st.firstLifecycle < 0) st.firstLifecycle = int(k);
		if (e.k == EV_ISSUE) st.anyIssue = true;
	}
	for (auto& r : st.rounds) if (!r.cancelled) st.approved.insert(st.approved.end(), r.pending.begin(), r.pending.end());
	if (!st.rounds.empty()) {
		int cur = -1;
		for (auto& e : h.trace) {
			if ((e.k == EV_CB || e.k == EV_INJ) && isGuardM(e.method)) cur = e.round; else if (e.k == EV_CB || e.k == EV_INJ) cur = -1;
			if (e.k == EV_ISSUE && cur == int(st.rounds.size()) - 1) { Tr t; t.origin = e.state; t.kind = e.a; t.dest = e.b; t.hasPayload = e.hasP; t.payload = e.p; st.phantom.push_back(t); if (e.a != K_SCHEDULE) st.phantomReal = true; }
		}
	}
	return st;
}

// ---- the configuration model ---------------------------------------------------------------------------------------

struct Cfg {
	const Shape* sh = nullptr;
	std::vector<int> active, resumable;   // per state id of composite regions: prong or -1
	bool on = false;
};

Cfg fromObs(const Shape& sh, const Obs& o) {
	Cfg c; c.sh = &sh; c.on = o.alive && o.activated;
	c.active.assign(size_t(sh.n), -1); c.resumable.assign(size_t(sh.n), -1);
	if (!o.alive) return c;
	for (int r = 0; r < sh.n; ++r) {
		if (!sh.isCompo(r)) continue;
		for (int k = 0; k < sh.st[size_t(r)].width; ++k) {
			const int ch = sh.kids[size_t(r)][size_t(k)];
			if (o.active[size_t(r)] && o.active[size_t(ch)]) c.active[size_t(r)] = k;
		}
	}
	// resumable marks: isResumable(s) is defined through the nearest composite ancestor
	for (int s = 1; s < sh.n; ++s) {
		if (!o.resumable[size_t(s)]) continue;
		const int p = sh.st[size_t(s)].parent;
		if (p >= 0 && sh.isCompo(p)) c.resumable[size_t(p)] = sh.st[size_t(s)].prong;
	}
	return c;
}

struct Resolve {
	const Shape& sh;
	const Op* op;                          // resolver returns and numbers in force
	const Cfg& before;
	std::vector<int> req;                  // expected child per composite region, -1 unset
	std::vector<int> how;                  // kind responsible (K_*), or 100 = path
	std::vector<int> setBy;                // index of the request that set it
	std::vector<uint8_t> conflict;         // two requests wanted different things
	std::vector<uint8_t> dontCare;
	std::vector<int> schedule;             // per region: prong given by a schedule request, -1 none
	std::vector<std::vector<int>> alts;    // per region: other children float rounding could legitimately have picked
	int randomResolved = 0;
	bool probe_exactBoundary = false;   // a draw landed exactly on an interval boundary (or on 0) in exact arithmetic
	bool usedSelect = false;

	Resolve(const Shape& s, const Op* o, const Cfg& b) : sh(s), op(o), before(b), req(size_t(s.n), -1), how(size_t(s.n), -1), setBy(size_t(s.n), -1),
		conflict(size_t(s.n), 0), dontCare(size_t(s.n), 0), schedule(size_t(s.n), -1), alts(size_t(s.n)) {}

	const Resolver* res(int s) const { if (op) for (auto& r : op->res) if (r.state == s) return &r; return nullptr; }
	int   selectOf(int s) const { const Resolver* r = res(s); const int w = sh.st[size_t(s)].width; int v = r ? r->select : 0; return ((v % w) + w) % w; }
	int   rankOf(int s) const { const Resolver* r = res(s); return r ? r->rank : 0; }
	float utilOf(int s) const { const Resolver* r = res(s); return r ? r->utility : 1.0f; }
	float rnd() const { return (op && !op->rnd.empty()) ? op->rnd[0] : 0.5f; }

	void set(int r, int child, int kind, int by) {
		if (req[size_t(r)] >= 0 && req[size_t(r)] != child && setBy[size_t(r)] != by) conflict[size_t(r)] = 1;
		req[size_t(r)] = child; how[size_t(r)] = kind; setBy[size_t(r)] = by;
	}

	// utility of a state as the region above it sees it when resolving with 'kind' (utilize / change); long double, exact enough
	long double utility(int s, int kind, int by, bool commit) {
		const long double h = sh.st[size_t(s)].headless ? 1.0L : (long double) utilOf(s);
		if (sh.isCompo(s)) {
			const int c = chooseChild(s, kind, by, commit);
			if (c < 0) { dontCare[size_t(s)] = 1; return h; }
			return h * utility(sh.kids[size_t(s)][size_t(c)], kind, by, commit);
		}
		if (sh.isOrtho(s)) {
			long double sum = 0;
			for (int ch : sh.kids[size_t(s)]) sum += utility(ch, kind, by, commit);
			return h * (sum / (long double) sh.st[size_t(s)].width);
		}
		return h;
	}

	// which child region r takes when resolved by 'kind'; commit = record it as the expectation
	std::map<std::pair<int,int>, int> memoHow;
	bool scheduleSeen = false;
	std::map<std::pair<int,int>, int> memo;   // (request, region) -> child: a region is resolved (and draws) once per request
	int chooseChild(int r, int kind, int by, bool commit) {
		const std::pair<int,int> key(by, r);
		auto it = memo.find(key);
		if (it != memo.end()) {
			if (dontCare[size_t(r)]) scheduleSeen = true;
			if (commit && it->second >= 0) { set(r, it->second, memoHow[key], by); descend(sh.kids[size_t(r)][size_t(it->second)], kind, by); }
			return it->second;
		}
		int eff = kind;
		if (kind == K_CHANGE) {
			switch (sh.st[size_t(r)].strategy) { case 0: eff = K_RESTART; break; case 1: eff = K_RESUME; break; case 2: eff = K_SELECT; break; case 3: eff = K_UTILIZE; break; default: eff = K_RANDOMIZE; break; }
		}
		int c = -1;
		switch (eff) {
		case K_RESTART: c = 0; break;
		case K_RESUME: c = before.resumable[size_t(r)] >= 0 ? before.resumable[size_t(r)] : 0; if (schedule[size_t(r)] >= 0) { dontCare[size_t(r)] = 1; scheduleSeen = true; } break;
		case K_SELECT: c = selectOf(r); usedSelect = true; break;
		case K_UTILIZE: {
			const bool seenBefore = scheduleSeen; scheduleSeen = false;
			long double best = -1; c = 0;
			std::vector<long double> us;
			for (int k = 0; k < sh.st[size_t(r)].width; ++k) {
				const long double u = utility(sh.kids[size_t(r)][size_t(k)], kind == K_CHANGE ? K_CHANGE : K_UTILIZE, by, false);
				us.push_back(u);
				if (u > best) { best = u; c = k; }
			}
			// the library multiplies in float: candidates within a few ulps of the maximum are indistinguishable
			// ... unless every product involved is exactly representable in float, in which case there is nothing to round
			alts[size_t(r)].clear();
			bool exact = true; for (auto u : us) if ((long double)(float) u != u) exact = false;
			if (!exact) for (int k = 0; k < int(us.size()); ++k) if (k != c && us[size_t(k)] >= best - best * 1e-6L) alts[size_t(r)].push_back(k);
			// a utility that came through a region whose remembered sub-state a scheduling request of this batch may have changed
			if (scheduleSeen) dontCare[size_t(r)] = 1;
			scheduleSeen = scheduleSeen || seenBefore;
			break; }
		case K_RANDOMIZE: {
			const bool seenBefore = scheduleSeen; scheduleSeen = false;
			++randomResolved;
			int top = -1000000;
			for (int ch : sh.kids[size_t(r)]) top = std::max(top, sh.st[size_t(ch)].headless ? 0 : rankOf(ch));
			long double sum = 0; std::vector<long double> u(size_t(sh.st[size_t(r)].width), 0);
			for (int k = 0; k < sh.st[size_t(r)].width; ++k) {
				const int ch = sh.kids[size_t(r)][size_t(k)];
				if ((sh.st[size_t(ch)].headless ? 0 : rankOf(ch)) != top) continue;
				u[size_t(k)] = utility(ch, kind == K_CHANGE ? K_CHANGE : K_RANDOMIZE, by, false);
				sum += u[size_t(k)];
			}
			const long double cursor = (long double) rnd() * sum;
			const long double slack = sum * 4.8e-7L;                    // 4 ulp of the float sum
			long double acc = 0; c = -1;
			alts[size_t(r)].clear();
			// exact when sum, cursor and every partial sum are representable in float: then the interval rule is strict ([lo, hi): a value on a boundary belongs to the next sub-state)
			bool exact = (long double)(float) sum == sum && (long double)(float) cursor == cursor;
			{ long double a2 = 0; for (int k = 0; k < sh.st[size_t(r)].width; ++k) { if ((long double)(float) u[size_t(k)] != u[size_t(k)]) exact = false; const long double a1 = a2; a2 += u[size_t(k)]; if (a2 - u[size_t(k)] != a1 || a2 - a1 != u[size_t(k)]) exact = false;   /* the reference arithmetic itself rounded */ if ((long double)(float) a2 != a2 || (long double)(float)(cursor - a2) != (cursor - a2)) exact = false; } }
			for (int k = 0; k < sh.st[size_t(r)].width; ++k) {
				if (u[size_t(k)] <= 0) continue;
				const long double lo = acc; acc += u[size_t(k)];
				if (c < 0 && cursor < acc) c = k;
				if (!exact && cursor >= lo - slack && cursor < acc + slack) alts[size_t(r)].push_back(k);
			}
			if (exact) probe_exactBoundary = probe_exactBoundary || [&] { long double a3 = 0; for (auto x : u) { a3 += x; if (a3 == cursor) return true; } return cursor == 0; }();
			if (c < 0) for (int k = sh.st[size_t(r)].width - 1; k >= 0; --k) if (u[size_t(k)] > 0) { c = k; break; }
			if (getenv("VF_DEBUG_MODEL")) { fprintf(stderr, "model: randomize region %d by %d: sum=%Lg cursor=%Lg exact=%d c=%d u=", r, by, sum, cursor, int(exact), c); for (auto x : u) fprintf(stderr, "%Lg ", x); fprintf(stderr, "\n"); }
			if (scheduleSeen) dontCare[size_t(r)] = 1;
			scheduleSeen = scheduleSeen || seenBefore;
			break; }
		default: c = 0; break;
		}
		memo[key] = c; memoHow[key] = eff;
		if (commit && c >= 0) {
			set(r, c, eff, by);
			descend(sh.kids[size_t(r)][size_t(c)], kind, by);
		}
		return c;
	}

	// everything that gets entered below s resolves by the request kind
	void descend(int s, int kind, int by) {
		if (sh.isCompo(s)) chooseChild(s, kind, by, true);
		else if (sh.isOrtho(s)) for (int ch : sh.kids[size_t(s)]) descend(ch, kind, by);
	}

	// will state s be active once the expectations so far are applied? (path from root follows req else before)
	bool willBeActive(int s) const {
		int c = s;
		for (int p = sh.st[size_t(s)].parent; p >= 0; c = p, p = sh.st[size_t(p)].parent) {
			if (!sh.isCompo(p)) continue;
			const int want = req[size_t(p)] >= 0 ? req[size_t(p)] : before.active[size_t(p)];
			if (want != sh.st[size_t(c)].prong) return false;
		}
		return before.on || req[0] >= 0 || true;
	}

	void apply(const Tr& q, int by) {
		if (q.dest < 0 || q.dest >= sh.n) return;
		if (q.kind == K_SCHEDULE) {
			int prong = -1; const int p = sh.compoParent(q.dest, &prong);
			// the library marks only when the direct parent is a composite-style region
			if (sh.st[size_t(q.dest)].parent >= 0 && sh.isCompo(sh.st[size_t(q.dest)].parent)) {
				if (schedule[size_t(p)] >= 0 && schedule[size_t(p)] != prong) dontCare[size_t(p)] = 2;   // several scheduling requests for one region: their order is not observable here
				schedule[size_t(p)] = prong;
			}
			return;
		}
		// path: every composite ancestor takes the child on the way to the destination
		std::vector<std::pair<int,int>> path;   // (region, child prong), nearest first
		int c = q.dest;
		std::vector<int> orthoOnPath;
		for (int p = sh.st[size_t(q.dest)].parent; p >= 0; c = p, p = sh.st[size_t(p)].parent) {
			if (sh.isCompo(p)) path.emplace_back(p, sh.st[size_t(c)].prong);
			else orthoOnPath.push_back(p);
		}
		// regions that were inactive (or get switched) and are entered through the path: their other parts resolve by the kind
		std::vector<uint8_t> wasActive(size_t(sh.n), 0);
		for (int s = 0; s < sh.n; ++s) wasActive[size_t(s)] = willBeActive(s) && (s == 0 ? before.on : true);
		for (auto& pc : path) set(pc.first, pc.second, 100, by);
		// orthogonal regions on the path that were not active before this request: siblings of the path child resolve by kind
		// ... and orthogonal regions between the destination and its nearest composite ancestor are (re-)entered as a whole:
		// the request targets that ancestor's sub-state, so its other branches resolve by the kind as well
		c = q.dest;
		bool belowNearest = sh.compoParent(q.dest) >= 0;   // with no composite ancestor at all nothing is re-entered
		for (int p = sh.st[size_t(q.dest)].parent; p >= 0; c = p, p = sh.st[size_t(p)].parent) {
			if (sh.isCompo(p)) { belowNearest = false; continue; }
			const bool pWas = wasActive[size_t(p)] && before.on;
			if (pWas && !belowNearest) continue;
			for (int ch : sh.kids[size_t(p)]) if (ch != c) descend(ch, q.kind, by);
		}
		// the destination itself
		descend(q.dest, q.kind, by);
	}
};

} // namespace

// ---- C05: delivery order ------------------------------------------------------------------------------------------------

static void visit(const Shape& sh, const Obs& cfg, int s, bool headFirst, std::vector<int>& out) {
	if (!cfg.active[size_t(s)]) return;
	const bool headed = !sh.st[size_t(s)].headless;
	if (headFirst && headed) out.push_back(s);
	if (sh.isRegion(s)) for (int ch : sh.kids[size_t(s)]) visit(sh, cfg, ch, headFirst, out);
	if (!headFirst && headed) out.push_back(s);
}

static void checkDelivery(World& w, int i, const Op& op, const Obs& before) {
	if (!w.wants("C05")) return;
	if (op.kind != OP_UPDATE && op.kind != OP_REACT && op.kind != OP_QUERY) return;
	Slot& s = w.slots[size_t(i)];
	if (!before.alive || !before.activated) return;
	const Harness& h = *s.h;
	const Shape& sh = *h.shape;
	const bool bottomUp = (s.node->caps() & CAP_BOTTOMUP) != 0;
	struct Phase { int method; bool headFirst; };
	std::vector<Phase> phases;
	if (op.kind == OP_UPDATE) phases = {{M_PRE_UPDATE, true}, {M_UPDATE, true}, {M_POST_UPDATE, false}};
	else if (op.kind == OP_REACT) phases = {{M_PRE_REACT, !bottomUp}, {M_REACT, !bottomUp}, {M_POST_REACT, bottomUp}};
	else phases = {{M_QUERY, !bottomUp}};
	char b[300];
	size_t pos = 0;
	const std::vector<Ev>& tr = h.trace;
	for (const Phase& ph : phases) {
		std::vector<int> order; visit(sh, before, 0, ph.headFirst, order);
		// what actually ran in this phase: (state, injected) in order, and who consumed
		std::vector<std::pair<int,int>> ran; int consumer = -1;
		// skip to the first event of this phase
		while (pos < tr.size() && !((tr[pos].k == EV_CB || tr[pos].k == EV_INJ) && tr[pos].method == ph.method)) {
			if ((tr[pos].k == EV_CB || tr[pos].k == EV_INJ) && (tr[pos].method == M_PRE_UPDATE || tr[pos].method == M_UPDATE || tr[pos].method == M_POST_UPDATE ||
			     tr[pos].method == M_PRE_REACT || tr[pos].method == M_REACT || tr[pos].method == M_POST_REACT || tr[pos].method == M_QUERY)) break;
			++pos;
		}
		int cur = -1;
		while (pos < tr.size()) {
			const Ev& e = tr[pos];
			if (e.k == EV_CB || e.k == EV_INJ) {
				if (e.method != ph.method) break;
				ran.emplace_back(e.state, e.k == EV_INJ ? 1 : 0); cur = e.state;
			} else if (e.k == EV_CONSUME && cur >= 0 && consumer < 0 && op.kind != OP_UPDATE) consumer = cur;
			else if (e.k == EV_API) { }
			++pos;
		}
		// expected: the order up to and including the first consumer; injected handler before own on the way down, after on the way up
		std::vector<std::pair<int,int>> expect;
		for (int st : order) {
			const bool inj = sh.st[size_t(st)].injected != 0;
			const bool injFirst = ph.method == M_PRE_UPDATE || ph.method == M_UPDATE || ph.method == M_PRE_REACT || ph.method == M_REACT;
			if (inj && injFirst) expect.emplace_back(st, 1);
			expect.emplace_back(st, 0);
			if (inj && !injFirst) expect.emplace_back(st, 1);
			if (st == consumer) break;
		}
		if (ph.method == M_QUERY) {   // relative position of injected and own handler inside query() is not singled out by the statement
			auto norm = [](std::vector<std::pair<int,int>>& v) { for (size_t k = 0; k + 1 < v.size(); ++k) if (v[k].first == v[k + 1].first && v[k].second > v[k + 1].second) std::swap(v[k], v[k + 1]); };
			norm(ran); norm(expect);
		}
		w.checked("C05.order");
		uint64_t hh = std::hash<std::string>()(sh.name); for (int x : order) hh = mix64(hh, uint64_t(x)); hh = mix64(hh, uint64_t(ph.method) * 131 + uint64_t(consumer + 1));
		w.distinct(hh);
		if (consumer >= 0) w.probe("event_consumed");
		if (ran != expect) {
			size_t k = 0; while (k < ran.size() && k < expect.size() && ran[k] == expect[k]) ++k;
			std::snprintf(b, sizeof b, "%s: %s phase %s: callback #%zu differs: delivered to %d%s, expected %d%s (consumer=%d, %zu delivered, %zu expected)", h.role.c_str(), opName(op.kind), methodName(ph.method), k,
				k < ran.size() ? ran[k].first : -1, (k < ran.size() && ran[k].second) ? "(injected)" : "", k < expect.size() ? expect[k].first : -1, (k < expect.size() && expect[k].second) ? "(injected)" : "", consumer, ran.size(), expect.size());
			std::string tag;
			if (consumer >= 0 && ran.size() > expect.size() && k == expect.size()) {
				bool allOrthoLeaves = true;
				std::set<int> expected; for (auto& x : expect) expected.insert(x.first);
				for (auto& x : ran) if (!expected.count(x.first)) { const int par = sh.st[size_t(x.first)].parent; if (sh.isRegion(x.first) || par < 0 || !sh.isOrtho(par)) allOrthoLeaves = false; }
				// the order of what was delivered must still be the documented one
				std::vector<std::pair<int,int>> filtered; for (auto& x : ran) if (expected.count(x.first)) filtered.push_back(x);
				if (allOrthoLeaves && filtered == expect) tag = "consume_ortho_leaf_siblings";
			}
			w.violate("C05.order", b, i, tag);
			return;
		}
	}
	if (op.kind == OP_QUERY) {
		w.checked("C05.query_pure");
		const Obs& o = s.obs;
		if (!o.sameConfig(before) || o.prev != before.prev || o.queued != before.queued || o.plans != before.plans)
			w.violate("C05.query_pure", h.role + ": query() changed the machine", i);
	}
}

// ---- C04: guard rounds -----------------------------------------------------------------------------------------------------

static bool processingOp(const Op& op) { return op.kind == OP_UPDATE || op.kind == OP_REACT || op.kind == OP_IMMEDIATE; }

static void checkRounds(World& w, int i, const Op& op, const Obs& before, const Step& st) {
	if (!w.wants("C04")) return;
	Slot& s = w.slots[size_t(i)];
	const Harness& h = *s.h;
	const Shape& sh = *h.shape;
	if (!(processingOp(op) || op.kind == OP_ENTER)) return;
	if (st.rounds.empty()) return;
	char b[300];
	w.checked("C04.rounds");
	uint64_t hh = mix64(std::hash<std::string>()(sh.name), st.rounds.size());
	for (auto& r : st.rounds) hh = mix64(hh, (r.cancelled ? 7 : 3) + r.pending.size() * 16);
	w.distinct(hh);
	if (st.rounds.size() > 1) w.probe("multi_round_step");
	// (f) bounded
	// (the first activation consults the entry guards of the default configuration once before any substitution round)
	const int roundBound = s.node->substitutionLimit() + (op.kind == OP_ENTER ? 1 : 0);
	if (int(st.rounds.size()) > roundBound) {
		std::snprintf(b, sizeof b, "%s: %zu guard rounds in one processing step, substitution limit is %d", h.role.c_str(), st.rounds.size(), s.node->substitutionLimit());
		w.violate("C04.round_limit", b, i);
	}
	if (int(st.rounds.size()) == s.node->substitutionLimit()) w.probe("round_limit_reached");
	// (a) exit guards before entry guards within a round
	for (size_t r = 0; r < st.rounds.size(); ++r) {
		bool seenEntry = false;
		for (int gi : st.rounds[r].guardEvs) {
			const Ev& e = h.trace[size_t(gi)];
			if (e.method == M_ENTRY_GUARD) seenEntry = true;
			else if (seenEntry) { std::snprintf(b, sizeof b, "%s: round %zu: exit guard of %d invoked after an entry guard", h.role.c_str(), r, e.state); w.violate("C04.guard_order", b, i); }
		}
	}
	// (b) no lifecycle callback before the last guard
	if (st.firstLifecycle >= 0 && st.lastGuard > st.firstLifecycle) {
		const Ev& e = h.trace[size_t(st.firstLifecycle)];
		std::snprintf(b, sizeof b, "%s: %s of state %d ran before the guards of a later round were consulted", h.role.c_str(), methodName(e.method), e.state);
		w.violate("C04.guards_first", b, i);
	}
	// (d) what guards see as pending: round k > 0 = requests the guards of round k-1 issued, in order
	for (size_t r = 1; r < st.rounds.size(); ++r) {
		std::vector<Tr> issued;
		int cur = -1;
		for (size_t k = 0; k < h.trace.size(); ++k) {
			const Ev& e = h.trace[k];
			if ((e.k == EV_CB || e.k == EV_INJ) && isGuardM(e.method)) cur = e.round; else if (e.k == EV_CB || e.k == EV_INJ) cur = -1;
			if (e.k == EV_ISSUE && cur >= 0 && cur < int(r)) {
				// requests issued in rounds before r that no round consumed yet: exactly those of round r-1 (earlier ones were consumed by round r-1 or dropped)
				if (cur == int(r) - 1) { Tr t; t.origin = e.state; t.kind = e.a; t.dest = e.b; t.hasPayload = e.hasP; t.payload = e.p; issued.push_back(t); }
			}
		}
		w.checked("C04.pending_view");
		if (!(issued == st.rounds[r].pending)) {
			std::snprintf(b, sizeof b, "%s: guards of round %zu saw %zu pending transition(s) but the guards of round %zu issued %zu", h.role.c_str(), r, st.rounds[r].pending.size(), r - 1, issued.size());
			w.violate("C04.pending_view", b, i);
		}
	}
	// (c) every state exited / entered by the step had its guard consulted in a round nobody vetoed
	if (processingOp(op)) {
		std::set<int> exitOk, entryOk;
		for (size_t r = 0; r < st.rounds.size(); ++r) if (!st.rounds[r].cancelled)
			for (int gi : st.rounds[r].guardEvs) { const Ev& e = h.trace[size_t(gi)]; (e.method == M_EXIT_GUARD ? exitOk : entryOk).insert(e.state); }
		for (size_t k = 0; k < h.trace.size(); ++k) {
			const Ev& e = h.trace[k];
			if (e.k != EV_CB || !isLifecycle(e.method)) continue;
			w.checked("C04.guarded_change");
			const bool ok = e.method == M_EXIT ? exitOk.count(e.state) > 0 : entryOk.count(e.state) > 0;
			if (!ok) {
				std::snprintf(b, sizeof b, "%s: state %d received %s although its %s guard was not consulted in an approved round", h.role.c_str(), e.state, methodName(e.method), e.method == M_EXIT ? "exit" : "entry");
				// documented: a request naming an orthogonal region (or the orthogonal root) batched with a request for one of its branches
				std::string tag;
				for (int o = sh.st[size_t(e.state)].parent; o >= 0 && tag.empty(); o = sh.st[size_t(o)].parent) {
					if (!sh.isOrtho(o)) continue;
					bool whole = false, branch = false;
					std::vector<Tr> all = st.approved; all.insert(all.end(), st.phantom.begin(), st.phantom.end());
					for (auto& q : all) { if (q.kind == K_SCHEDULE) continue; if (q.dest == o || (q.dest >= 0 && q.dest < o && sh.inSubtree(o, q.dest))) whole = true; else if (q.dest > o && sh.inSubtree(q.dest, o)) branch = true; }
					if (whole && branch) tag = "ortho_partial_guard_forwarding";
				}
				w.violate("C04.guarded_change", b, i, tag); break;
			}
		}
	}
	// (e) every round vetoed: nothing happens
	bool allVetoed = true; bool anySchedule = false;
	for (auto& r : st.rounds) { if (!r.cancelled) allVetoed = false; for (auto& q : r.pending) if (q.kind == K_SCHEDULE) anySchedule = true; }
	for (auto& q : before.queued) if (q.kind == K_SCHEDULE) anySchedule = true;
	for (auto& e : h.trace) if (e.k == EV_ISSUE && e.a == K_SCHEDULE) anySchedule = true;
	if (allVetoed && processingOp(op) && !st.phantomReal) {
		w.checked("C04.veto_atomic");
		w.probe("all_rounds_vetoed");
		if (st.firstLifecycle >= 0) {
			const Ev& e = h.trace[size_t(st.firstLifecycle)];
			std::snprintf(b, sizeof b, "%s: every round was vetoed, yet state %d received %s", h.role.c_str(), e.state, methodName(e.method)); w.violate("C04.veto_atomic", b, i);
		} else if (s.obs.active != before.active) w.violate("C04.veto_atomic", h.role + ": every round was vetoed, yet the active configuration changed", i);
		else if (!anySchedule && s.obs.resumable != before.resumable) w.violate("C04.veto_atomic", h.role + ": every round was vetoed (no scheduling requests), yet resumable sub-states changed", i);
	}
}

// ---- C13: pending predicates inside guards of a single pending request -----------------------------------------------------------

static void checkGuardPending(World& w, int i, const Op& op, const Obs& before, const Step& st) {
	if (!w.wants("C13")) return;
	if (!processingOp(op)) return;
	Slot& s = w.slots[size_t(i)];
	const Harness& h = *s.h;
	const Shape& sh = *h.shape;
	if (st.rounds.size() != 1 || st.phantomReal || st.rounds[0].cancelled || st.rounds[0].pending.size() != 1 || st.rounds[0].pending[0].kind == K_SCHEDULE) return;
	if (!before.alive || !before.activated) return;
	std::vector<int> enters(size_t(sh.n), 0), exits(size_t(sh.n), 0);
	for (auto& e : h.trace) if (e.k == EV_CB) { if (e.method == M_ENTER) ++enters[size_t(e.state)]; if (e.method == M_EXIT) ++exits[size_t(e.state)]; }
	char b[300];
	w.checked("C13.guard_pending");
	w.distinct(mix64(mix64(0xC13F, std::hash<std::string>()(sh.name)), uint64_t(st.rounds[0].pending[0].dest) * 8 + uint64_t(st.rounds[0].pending[0].kind)));
	for (const GuardView& g : h.guards) {
		for (int k = 0; k < sh.n; ++k) {
			const bool was = before.active[size_t(k)] != 0, is = s.obs.active[size_t(k)] != 0;
			const bool pe = g.pendEnter[size_t(k)] != 0, px = g.pendExit[size_t(k)] != 0, pc = g.pendChange[size_t(k)] != 0;
			const bool bounced = !sh.st[size_t(k)].headless && (enters[size_t(k)] || exits[size_t(k)]);
			bool expE, expX;
			if (!was && is) { expE = true; expX = false; }
			else if (was && !is) { expE = false; expX = true; }
			else if (was && is && bounced) continue;                  // exited and entered again: statement does not single it out
			else { expE = false; expX = false; }
			if (pe != expE || px != expX || pc != (expE || expX)) {
				std::snprintf(b, sizeof b, "%s: in %s of %d with one pending %s(%d): state %d was %s and ends %s, but isPendingEnter=%d isPendingExit=%d isPendingChange=%d",
					h.role.c_str(), methodName(g.method), g.state, kindName(st.rounds[0].pending[0].kind), st.rounds[0].pending[0].dest, k, was ? "active" : "inactive", is ? "active" : "inactive", int(pe), int(px), int(pc));
				// documented pattern: regions without a request of their own answer from an empty request slot
				std::string tag;
				if (pe == expE && !expE && !expX) tag = "pending_true_when_idle";                 // untouched region: exit/change spuriously true
				else if (pe == expE && expX && !px) {
					// documented: a utility / rank / select evaluation that looked at k's region left a request naming the active sub-state in its slot, the
					// exit of the states below is then not reported. Without such an evaluation in this step a missing exit report is news.
					const int R = sh.compoParent(k);
					bool evaluated = false;
					for (auto& e : h.trace) if ((e.k == EV_CB || e.k == EV_RET) && (e.method == M_UTILITY || e.method == M_RANK || e.method == M_SELECT) && e.state >= 0 && (e.state == R || e.state == k || (R >= 0 && sh.st[size_t(e.state)].parent == R) || sh.inSubtree(k, e.state))) evaluated = true;
					if (evaluated) tag = "pending_exit_not_propagated";
				}
				else if (expE && !pe) tag = "pending_enter_not_propagated";                       // enters below a switched ancestor are not reported
				else if (pe && !expE && px == expX && (sh.usesUtility || st.rounds[0].pending[0].kind == K_UTILIZE || st.rounds[0].pending[0].kind == K_RANDOMIZE)) tag = "pending_enter_stale_after_utility_evaluation";   // evaluating branches that are not chosen leaves their requests behind
				w.violate("C13.guard_pending", b, i, tag);
				return;
			}
		}
	}
}

// ---- C09: what the history records ---------------------------------------------------------------------------------------------------

static bool isSubsequence(const std::vector<Tr>& small, const std::vector<Tr>& big) {
	size_t j = 0;
	for (size_t k = 0; k < big.size() && j < small.size(); ++k) if (small[j] == big[k]) ++j;
	return j == small.size();
}

static void checkBulkAppend(World& w, int i, const Op& op, const Step& st) {
	if (!w.wants("C19")) return;
	Slot& s = w.slots[size_t(i)];
	if (!(s.node->caps() & CAP_HISTORY) || !processingOp(op) || !s.obs.activated) return;
	if (st.rounds.empty() || !st.phantom.empty()) return;     // rounds nobody saw may have appended too
	// each approved round is bulk-appended to the set of applied transitions: order, count and contents preserved
	w.checked("C19.bulk_append");
	if (st.rounds.size() > 1) w.probe("bulk_append_several_rounds");
	if (!(s.obs.prev == st.approved)) {
		char b[200]; std::snprintf(b, sizeof b, "%s: %zu request(s) in approved rounds, previousTransitions() holds %zu (or differs in order / content)", s.h->role.c_str(), st.approved.size(), s.obs.prev.size());
		w.violate("C19.bulk_append", b, i);
	}
}

static void checkHistory(World& w, int i, const Op& op, const Obs& before, const Step& st) {
	if (!w.wants("C09")) return;
	Slot& s = w.slots[size_t(i)];
	if (!(s.node->caps() & CAP_HISTORY)) return;
	if (!(processingOp(op) || op.kind == OP_ENTER)) return;
	if (!s.obs.activated) return;
	const Harness& h = *s.h;
	const Shape& sh = *h.shape;
	char b[300];
	const std::vector<Tr>& prev = s.obs.prev;
	w.checked("C09.prev_content");
	// nothing else: every recorded entry is a request of an approved round, in order, none twice
	if (!st.rounds.empty() || prev.empty()) {
		std::vector<Tr> allowed = st.approved; allowed.insert(allowed.end(), st.phantom.begin(), st.phantom.end());
		if (!isSubsequence(prev, allowed)) {
			std::snprintf(b, sizeof b, "%s: previousTransitions() holds %zu entries that are not a sub-sequence of the %zu request(s) of approved rounds", h.role.c_str(), prev.size(), st.approved.size());
			w.violate("C09.prev_content", b, i);
		}
	}
	bool changed = before.alive && before.activated && s.obs.active != before.active;
	if (changed && prev.empty() && processingOp(op)) w.violate("C09.prev_content", h.role + ": the step changed the active configuration but previousTransitions() is empty", i);
	if (st.approved.empty() && st.phantom.empty() && !prev.empty() && !st.rounds.empty()) w.violate("C09.prev_content", h.role + ": nothing was approved, yet previousTransitions() is not empty", i);
	// lastTransitionTo: null or inside the array
	w.checked("C09.last_to");
	for (int k = 0; k < sh.n; ++k) {
		const int v = s.obs.lastTo.empty() ? -1 : s.obs.lastTo[size_t(k)];
		if (v == -2 || v >= int(prev.size())) { std::snprintf(b, sizeof b, "%s: lastTransitionTo(%d) points outside previousTransitions()", h.role.c_str(), k); w.violate("C09.last_to", b, i); return; }
	}
	// after a single approved request: it is the last transition to every state it activated
	// ... also when later substitution rounds of the same step were vetoed: a vetoed round "changes nothing" (documented deviation: it wipes the marks)
	bool laterAllVetoed = st.rounds.size() > 1 && !st.rounds[0].cancelled;
	for (size_t k = 1; k < st.rounds.size(); ++k) if (!st.rounds[k].cancelled) laterAllVetoed = false;
	if (laterAllVetoed) w.probe("single_approved_then_vetoed_rounds");
	if ((st.rounds.size() == 1 || laterAllVetoed) && !st.phantomReal && !st.rounds[0].cancelled && st.approved.size() == 1 && st.approved[0].kind != K_SCHEDULE && prev.size() == 1 && before.alive && before.activated) {
		w.checked("C09.last_to_single");
		for (int k = 0; k < sh.n; ++k) {
			if (before.active[size_t(k)] || !s.obs.active[size_t(k)]) continue;
			if (s.obs.lastTo[size_t(k)] != 0) {
				std::snprintf(b, sizeof b, "%s: a single approved %s(%d) activated state %d, but lastTransitionTo(%d) is %s", h.role.c_str(), kindName(st.approved[0].kind), st.approved[0].dest, k, k, s.obs.lastTo[size_t(k)] < 0 ? "null" : "another entry");
				bool util = st.approved[0].kind == K_UTILIZE || st.approved[0].kind == K_RANDOMIZE;
				for (int x = sh.st[size_t(k)].parent; x >= 0; x = sh.st[size_t(x)].parent) if (sh.st[size_t(x)].strategy == 3 || sh.st[size_t(x)].strategy == 4) util = true;
				w.violate("C09.last_to_single", b, i, util ? "last_to_unpinned_by_utility_resolution" : (laterAllVetoed ? "vetoed_round_wipes_last_transition_marks" : ""));
				return;
			}
		}
	}
}

// ---- C02 / C12: configuration after approved requests --------------------------------------------------------------------------------

static void checkConfiguration(World& w, int i, const Op& op, const Obs& before, const Step& st) {
	const bool w02 = w.wants("C02"), w12 = w.wants("C12");
	if (!w02 && !w12) return;
	Slot& s = w.slots[size_t(i)];
	const Harness& h = *s.h;
	const Shape& sh = *h.shape;
	if (!s.obs.alive) return;
	char b[320];
	const Cfg cb = fromObs(sh, before), ca = fromObs(sh, s.obs);

	// P5: reset re-activates like a first activation, nothing resumable
	if (op.kind == OP_RESET && before.alive && before.activated && w02) {
		Cfg empty = cb; std::fill(empty.resumable.begin(), empty.resumable.end(), -1); std::fill(empty.active.begin(), empty.active.end(), -1); empty.on = false;
		Resolve r(sh, h.op, empty);
		r.descend(0, K_CHANGE, 0);
		if ((s.node->caps() & CAP_BUILTIN_RNG) && r.randomResolved > 0) return;   // draws of the built-in generator are not known to the model
		w.checked("C02.reset");
		for (int k = 0; k < sh.n; ++k) if (s.obs.resumable[size_t(k)]) { std::snprintf(b, sizeof b, "%s: after reset() state %d is still resumable", h.role.c_str(), k); w.violate("C02.reset", b, i); return; }
		for (int g = 0; g < sh.n; ++g) {
			if (!sh.isCompo(g) || ca.active[size_t(g)] < 0 || r.req[size_t(g)] < 0 || r.dontCare[size_t(g)]) continue;
			bool fragileBelow = false; for (int x = g + 1; x < g + sh.st[size_t(g)].size; ++x) if (sh.isCompo(x) && !r.alts[size_t(x)].empty()) fragileBelow = true;
			if (fragileBelow) break;     // a nested choice sits within float rounding of a boundary: what is built on it is not predicted
			if (ca.active[size_t(g)] != r.req[size_t(g)] && std::find(r.alts[size_t(g)].begin(), r.alts[size_t(g)].end(), ca.active[size_t(g)]) == r.alts[size_t(g)].end()) {
				std::snprintf(b, sizeof b, "%s: after reset() region %d has sub-state %d active; its first activation (declared strategy %d) would pick %d", h.role.c_str(), g, ca.active[size_t(g)], sh.st[size_t(g)].strategy, r.req[size_t(g)]);
				w.violate("C02.reset", b, i); return;
			}
		}
		return;
	}
	if (!processingOp(op)) return;
	if (!before.alive || !before.activated) return;

	// P6: nothing pending, nothing changes
	const bool plansMayAct = (s.node->caps() & CAP_PLANS) != 0;
	bool planActivity = false;
	for (auto& e : h.trace) if ((e.k == EV_CB && (e.method == M_PLAN_SUCCEEDED || e.method == M_PLAN_FAILED)) || e.k == EV_LOG_TRANSITION) planActivity = true;
	if (plansMayAct) for (auto& p : before.plans) if (!p.empty()) planActivity = true;
	if (before.queued.empty() && !st.anyIssue && st.rounds.empty() && !planActivity && w02) {
		w.checked("C02.idle");
		if (!s.obs.sameConfig(before)) w.violate("C02.idle", h.role + ": processing with no pending request changed the configuration", i);
		return;
	}
	if (st.rounds.empty()) {
		// requests were pending but no guard ran: nothing may have been applied (headed leaves always have guards)
		if (w02 && !planActivity) {
			w.checked("C02.no_effect");
			if (s.obs.active != before.active) {
				// documented: a request naming an orthogonal region (or the orthogonal root) batched with a request for one of its branches skips the guards
				std::vector<int> dests; for (auto& q : before.queued) if (q.kind != K_SCHEDULE) dests.push_back(q.dest);
				for (auto& e : h.trace) if (e.k == EV_ISSUE && e.a != K_SCHEDULE) dests.push_back(e.b);
				std::string tag;
				for (int o = 0; o < sh.n && tag.empty(); ++o) {
					if (!sh.isOrtho(o)) continue;
					bool whole = false, branch = false;
					for (int d : dests) { if (d == o || (d >= 0 && d < o && sh.inSubtree(o, d))) whole = true; else if (d > o && sh.inSubtree(d, o)) branch = true; }
					if (whole && branch) tag = "ortho_partial_guard_forwarding";
				}
				w.violate("C02.no_effect", h.role + ": the active configuration changed although no guard was consulted", i, tag);
			}
		}
		return;
	}
	if (st.approved.empty()) return;      // C04 covers vetoed steps
	if (st.phantomReal) return;           // a further, unobservable round may have applied more requests

	Resolve r(sh, h.op, cb);
	int nReal = 0;
	std::vector<int> touched(size_t(sh.n), 0);   // by how many requests a region's choice may have been evaluated
	std::vector<int> reqBeforeLast; std::vector<int> howBeforeLast;   // expectations before the last real request was applied
	std::vector<std::vector<int>> reqAt;                              // per approved request: the expectations before it was applied
	std::vector<std::set<int>> earlierPath(size_t(sh.n));              // prongs the paths of earlier requests assign, each request on its own
	// scheduling requests issued by guards are applied in a later round that consults nobody
	for (auto& e : h.trace) if (e.k == EV_ISSUE && e.a == K_SCHEDULE) { Tr t; t.kind = K_SCHEDULE; t.dest = e.b; r.apply(t, 1000); }
	// ... and scheduling requests of vetoed rounds apply regardless
	for (auto& rd : st.rounds) for (auto& q : rd.pending) if (q.kind == K_SCHEDULE) r.apply(q, 1000);
	for (auto& q : before.queued) if (q.kind == K_SCHEDULE) r.apply(q, 1000);
	int lastReal = -1; for (size_t k = 0; k < st.approved.size(); ++k) if (st.approved[k].kind != K_SCHEDULE) lastReal = int(k);
	for (size_t k = 0; k < st.approved.size(); ++k) {
		const Tr& q = st.approved[k];
		reqAt.push_back(r.req);
		if (int(k) == lastReal) { reqBeforeLast = r.req; howBeforeLast = r.how; }
		else if (q.kind != K_SCHEDULE && q.dest >= 0 && q.dest < sh.n && int(k) < lastReal) { int c2 = q.dest; for (int p2 = sh.st[size_t(q.dest)].parent; p2 >= 0; c2 = p2, p2 = sh.st[size_t(p2)].parent) if (sh.isCompo(p2)) earlierPath[size_t(p2)].insert(sh.st[size_t(c2)].prong); }
		if (q.kind != K_SCHEDULE && q.dest >= 0 && q.dest < sh.n) {
			// scope: the sub-tree below the first region where the path leaves the configuration expected so far
			int root = q.dest, c = q.dest;
			for (int p = sh.st[size_t(q.dest)].parent; p >= 0; c = p, p = sh.st[size_t(p)].parent)
				if (sh.isCompo(p) && (r.req[size_t(p)] >= 0 ? r.req[size_t(p)] : cb.active[size_t(p)]) != sh.st[size_t(c)].prong) root = p;
			if (root == q.dest) { int prong; const int np = sh.compoParent(q.dest, &prong); if (np >= 0) root = sh.kids[size_t(np)][size_t(prong)]; }
			for (int x = root; x < root + sh.st[size_t(root)].size; ++x) ++touched[size_t(x)];
			++nReal;
		}
		r.apply(q, int(k));
		if (int(k) < lastReal) for (int g = 0; g < sh.n; ++g) if (r.req[size_t(g)] >= 0) earlierPath[size_t(g)].insert(r.req[size_t(g)]);   // whatever an earlier request asked of g, by path or by resolution
	}
	uint64_t hh = std::hash<std::string>()(sh.name);
	for (auto a : before.active) hh = mix64(hh, a);
	for (auto& q : st.approved) hh = mix64(hh, uint64_t(q.kind) * 64 + uint64_t(q.dest));
	w.distinct(hh);
	if (nReal > 1) w.probe("multi_request_batch");

	// several approved rounds in one step: each round was resolved against the registry the previous rounds left behind; the
	// composition is C04's subject ("go through the same procedure") and is not predicted here beyond untouched regions and resumable marks
	int approvedRounds = 0; for (auto& rd : st.rounds) if (!rd.cancelled && !rd.pending.empty()) ++approvedRounds;
	const bool singleRound = approvedRounds == 1;
	if (!singleRound) w.probe("multi_round_configuration_not_predicted");
	// P1: the last real destination and its ancestors are active
	if (w02 && singleRound) for (size_t k = st.approved.size(); k-- > 0;) {
		const Tr& q = st.approved[k];
		if (q.kind == K_SCHEDULE) continue;
		w.checked("C02.destination_active");
		for (int x = q.dest; x >= 0; x = sh.st[size_t(x)].parent)
			if (!s.obs.active[size_t(x)]) {
				std::snprintf(b, sizeof b, "%s: %s(%d) was approved (last of %zu) but state %d on its path is not active afterwards", h.role.c_str(), kindName(q.kind), q.dest, st.approved.size(), x);
				// documented pattern: the library stops climbing at the first ancestor (above the nearest one) whose current sub-state already lies on the
				// path and that no earlier request re-targeted -- and therefore misses a conflicting earlier request higher up. Utility evaluation of an
				// earlier request leaving requests behind is the second documented pattern.
				std::string tag;
				if (nReal > 1 && !reqBeforeLast.empty()) {
					std::vector<std::pair<int,int>> path; int c = q.dest;
					for (int p = sh.st[size_t(q.dest)].parent; p >= 0; c = p, p = sh.st[size_t(p)].parent) if (sh.isCompo(p)) path.emplace_back(p, sh.st[size_t(c)].prong);
					auto setOtherwise = [&](size_t lv) { if (r.dontCare[size_t(path[lv].first)]) return true;   /* an earlier request resolved it in a way the model cannot know (scheduling request in the batch) */
						for (int v : earlierPath[size_t(path[lv].first)]) if (v != path[lv].second) return true; return false; };
					int stop = -1;
					for (size_t lv = 1; lv < path.size(); ++lv) {
						const int rq = reqBeforeLast[size_t(path[lv].first)];     // what the request slot holds by now (later requests override earlier ones level by level)
						if ((rq < 0 || rq == path[lv].second) && cb.active[size_t(path[lv].first)] == path[lv].second) { stop = int(lv); break; }
					}
					// the slot the library sees may differ from the model's (requests the library ignores or resolves differently inside the batch): an ancestor whose
					// current sub-state lies on the path is a possible stopping point whatever the model thinks its slot holds
					{ int low = -1; for (size_t lv = 1; lv < path.size(); ++lv) if (cb.active[size_t(path[lv].first)] == path[lv].second) { low = int(lv); break; } if (low >= 0 && (stop < 0 || low < stop)) stop = low; }
					if (getenv("VF_DEBUG_MODEL")) { fprintf(stderr, "model: P1 tag: stop=%d path=", stop); for (auto& pc : path) fprintf(stderr, "(%d,%d rq=%d act=%d) ", pc.first, pc.second, reqBeforeLast[size_t(pc.first)], cb.active[size_t(pc.first)]); fprintf(stderr, "\n"); }
					if (stop >= 0) for (size_t lv = size_t(stop) + 1; lv < path.size(); ++lv) if (setOtherwise(lv)) tag = "batch_later_request_not_overriding";
					bool earlierUtility = false; for (int k2 = 0; k2 < lastReal; ++k2) if (st.approved[size_t(k2)].kind == K_UTILIZE || st.approved[size_t(k2)].kind == K_RANDOMIZE) earlierUtility = true;
					if (tag.empty() && (earlierUtility || sh.usesUtility)) { for (auto& pc : path) if (reqBeforeLast[size_t(pc.first)] >= 0 && howBeforeLast[size_t(pc.first)] != 100) tag = "batch_later_request_not_overriding"; }
				}
				w.violate("C02.destination_active", b, i, tag); return;
			}
		break;
	}
	// P2: entered / re-targeted regions picked the sub-state the rules prescribe
	if ((s.node->caps() & CAP_BUILTIN_RNG) && r.randomResolved > 0) return;   // the built-in generator's draws are not known to the model
	if (singleRound) for (int g = 0; g < sh.n; ++g) {
		if (!sh.isCompo(g) || r.req[size_t(g)] < 0 || ca.active[size_t(g)] < 0 || r.dontCare[size_t(g)]) continue;
		if (!r.willBeActive(g) && g != 0) continue;
		const int how = r.how[size_t(g)];
		const bool isUtil = how == K_UTILIZE || how == K_RANDOMIZE;
		if (isUtil && (s.node->caps() & CAP_BUILTIN_RNG) && how == K_RANDOMIZE) continue;
		const char* oracle = isUtil ? (how == K_UTILIZE ? "C12.utilize" : "C12.randomize") : "C02.choice";
		if (isUtil ? !w12 : !w02) { if (ca.active[size_t(g)] != r.req[size_t(g)]) r.dontCare[size_t(g)] = 1; continue; }   // the other lens judges this region; nothing is predicted below a choice that differs
		w.checked(oracle);
		if (how == K_RANDOMIZE) { w.probe("random_region_resolved"); if (r.probe_exactBoundary) w.probe("draw_exactly_on_boundary"); }
		if (ca.active[size_t(g)] == r.req[size_t(g)]) continue;
		if (isUtil && std::find(r.alts[size_t(g)].begin(), r.alts[size_t(g)].end(), ca.active[size_t(g)]) != r.alts[size_t(g)].end()) { w.probe("utility_within_rounding"); r.dontCare[size_t(g)] = 1; continue; }
		if (isUtil) { bool fragileBelow = false; for (int x = g + 1; x < g + sh.st[size_t(g)].size; ++x) if (sh.isCompo(x) && !r.alts[size_t(x)].empty()) fragileBelow = true; if (fragileBelow) { w.probe("nested_choice_within_rounding"); r.dontCare[size_t(g)] = 1; continue; } }
		if (r.conflict[size_t(g)] || touched[size_t(g)] > 1) {
			std::snprintf(b, sizeof b, "%s: region %d: requests of one batch disagree; the later one prescribes sub-state %d but %d is active", h.role.c_str(), g, r.req[size_t(g)], ca.active[size_t(g)]);
			// documented: a region an earlier request already resolved (as a sibling, by evaluation, or as its destination) is forwarded to, not re-resolved
			// an earlier request that names a destination inside g is not "conflicting" with a later request that merely re-enters g's surroundings
			if (!reqBeforeLast.empty() && reqBeforeLast[size_t(g)] >= 0 && howBeforeLast[size_t(g)] == 100 && r.how[size_t(g)] != 100 && !(lastReal >= 0 && st.approved[size_t(lastReal)].dest == g)) continue;
			const bool earlierResolved = !reqBeforeLast.empty() && reqBeforeLast[size_t(g)] >= 0;     // by resolution, or by the path of an earlier request: either way the slot is taken and the later request is forwarded past it
			const bool earlierEvaluated = touched[size_t(g)] > 1 && (sh.usesUtility || nReal > 1);
			// a request whose path set g (not the last one: P1 looks at that): did the climb stop below g (documented pattern)?
			bool climbStopped = false;
			if (r.how[size_t(g)] == 100 && r.setBy[size_t(g)] >= 0 && r.setBy[size_t(g)] < int(reqAt.size())) {
				const int kq = r.setBy[size_t(g)]; const Tr& qq = st.approved[size_t(kq)];
				std::vector<std::pair<int,int>> path; int c = qq.dest;
				for (int p = sh.st[size_t(qq.dest)].parent; p >= 0; c = p, p = sh.st[size_t(p)].parent) if (sh.isCompo(p)) path.emplace_back(p, sh.st[size_t(c)].prong);
				int stop = -1;
				for (size_t lv = 1; lv < path.size(); ++lv) { const int rq = reqAt[size_t(kq)][size_t(path[lv].first)]; if ((rq < 0 || rq == path[lv].second) && cb.active[size_t(path[lv].first)] == path[lv].second) { stop = int(lv); break; } }
				if (stop >= 0) for (size_t lv = size_t(stop) + 1; lv < path.size(); ++lv) if (path[lv].first == g) climbStopped = true;
			}
			const int gpar = sh.st[size_t(g)].parent;
			// a request of the batch names an active region directly below an orthogonal region above g: the library ignores it (documented), the model applied it
			bool belowIgnoredNamed = false;
			for (auto& q : st.approved) { const int d = q.dest; if (q.kind == K_SCHEDULE || d < 0 || d >= sh.n || !sh.isCompo(d) || !sh.inSubtree(g, d)) continue; const int dp = sh.st[size_t(d)].parent; if (dp >= 0 && sh.isOrtho(dp) && cb.active[size_t(d)] >= 0) belowIgnoredNamed = true; }
			const bool namedActiveUnderOrtho = belowIgnoredNamed || lastReal >= 0 && st.approved[size_t(lastReal)].dest == g && gpar >= 0 && sh.isOrtho(gpar) && cb.active[size_t(g)] >= 0;
			w.violate(oracle, b, i, namedActiveUnderOrtho ? "active_region_under_ortho_not_retargeted" : climbStopped ? "batch_later_request_not_overriding" : ((earlierResolved || earlierEvaluated) && r.how[size_t(g)] != 100 ? "batch_later_request_not_overriding" : "")); return;
		}
		// a destination region that is already active below an orthogonal parent is not re-targeted by the library (documented)
		std::string tag;
		const int gp = sh.st[size_t(g)].parent;
		bool destIsG = false; for (auto& q : st.approved) if (q.dest == g) destIsG = true;
		if (destIsG && cb.active[size_t(g)] >= 0 && gp >= 0 && sh.isOrtho(gp) && ca.active[size_t(g)] == cb.active[size_t(g)]) tag = "active_region_under_ortho_not_retargeted";
		// ... and then nothing below the named region is re-resolved either
		if (tag.empty()) for (auto& q : st.approved) {
			const int d = q.dest; if (q.kind == K_SCHEDULE || d < 0 || d >= sh.n || !sh.isCompo(d) || d >= g || !sh.inSubtree(g, d)) continue;
			const int dp = sh.st[size_t(d)].parent;
			if (dp < 0 || !sh.isOrtho(dp) || cb.active[size_t(d)] < 0) continue;
			bool same = true; for (int x = d; x < d + sh.st[size_t(d)].size; ++x) if (sh.isCompo(x) && ca.active[size_t(x)] != cb.active[size_t(x)]) same = false;
			if (same || nReal > 1) tag = "active_region_under_ortho_not_retargeted";
		}
		// documented: a later request of the batch is forwarded through every orthogonal region both paths share into the branches earlier requests marked;
		// an orthogonal region entered as a whole by an earlier request has no marks of its own, so everything below it is resolved again - by the later request's kind
		if (tag.empty() && nReal > 1 && r.setBy[size_t(g)] >= 0 && r.setBy[size_t(g)] < lastReal) { bool orthoAbove = false; for (int x = sh.st[size_t(g)].parent; x >= 0; x = sh.st[size_t(x)].parent) if (sh.isOrtho(x)) orthoAbove = true; if (orthoAbove) tag = "batch_later_kind_reresolves_ortho_entered"; }
		std::snprintf(b, sizeof b, "%s: after %zu approved request(s) region %d has sub-state %d active; the rule '%s' prescribes %d (rnd=%.9g)", h.role.c_str(), st.approved.size(), g, ca.active[size_t(g)],
			how == 100 ? "path to destination" : kindName(how), r.req[size_t(g)], double(r.rnd()));
		w.violate(oracle, b, i, tag); return;
	}
	// below a region whose choice this model cannot know (don't-care) nothing is predicted
	std::vector<uint8_t> unknown(size_t(sh.n), 0);
	for (int g = 0; g < sh.n; ++g) if (sh.isCompo(g) && r.dontCare[size_t(g)] == 1) for (int x = g; x < g + sh.st[size_t(g)].size; ++x) unknown[size_t(x)] = 1;
	// P3: regions no request touches keep their sub-state
	if (w02) for (int g = 0; g < sh.n; ++g) {
		if (!sh.isCompo(g) || r.req[size_t(g)] >= 0 || unknown[size_t(g)]) continue;
		if (cb.active[size_t(g)] < 0 || ca.active[size_t(g)] < 0) continue;
		w.checked("C02.untouched");
		if (cb.active[size_t(g)] != ca.active[size_t(g)]) {
			std::snprintf(b, sizeof b, "%s: region %d was not touched by any approved request but switched from sub-state %d to %d", h.role.c_str(), g, cb.active[size_t(g)], ca.active[size_t(g)]);
			// documented: evaluating utilities for one request of a batch leaves requests in every region it looked at; a later request entering such a region is served from them
			bool utilityInBatch = false; for (auto& q : st.approved) if (q.kind == K_UTILIZE || q.kind == K_RANDOMIZE) utilityInBatch = true;
			w.violate("C02.untouched", b, i, nReal > 1 && (utilityInBatch || sh.usesUtility) ? "batch_later_request_not_overriding" : ""); return;
		}
	}
	// P4: each region remembers the sub-state it last left, or what schedule gave it
	if (w02) for (int g = 0; g < sh.n; ++g) {
		if (!sh.isCompo(g)) continue;
		const int was = cb.active[size_t(g)], is = ca.active[size_t(g)], rb = cb.resumable[size_t(g)], ra = ca.resumable[size_t(g)];
		const int sched = r.schedule[size_t(g)];
		int expect; bool care = true;
		const bool left = was >= 0 && is != was;                    // exited or switched
		bool bounced = false;                                        // exited and re-entered within the step (restart in place): statement is silent
		if (!sh.st[size_t(g)].headless) { for (auto& e : h.trace) if (e.k == EV_CB && e.state == g && (e.method == M_EXIT || e.method == M_ENTER)) bounced = true; }
		else for (auto& e : h.trace) if (e.k == EV_CB && (e.method == M_EXIT || e.method == M_ENTER) && e.state > g && sh.inSubtree(e.state, g)) bounced = true;   // no head callbacks: judge by the sub-states
		if (r.dontCare[size_t(g)] == 2) continue;
		if (left && sched >= 0) care = false;                        // both apply; order not fixed by the statement
		else if (left) expect = was;
		else if (sched >= 0) expect = sched;
		else expect = rb;
		if (!care) continue;
		if (is >= 0 && expect == is) continue;                       // mark equals the sub-state now active: cleared or not, statement is silent
		if (is >= 0 && rb == is && ra == -1) continue;
		if (bounced && !left) continue;
		w.checked("C02.resumable");
		if (ra != expect) {
			std::string tag;
			bool destIsG = false; for (auto& q : st.approved) if (q.dest == g) destIsG = true;
			if (left && is >= 0 && destIsG && was >= 0) tag = "reenter_switch_forgets_resumable";
			std::snprintf(b, sizeof b, "%s: region %d (sub-state %d -> %d, scheduled %d) should remember %d as resumable but reports %d", h.role.c_str(), g, was, is, sched, expect, ra);
			w.violate("C02.resumable", b, i, tag); return;
		}
	}
	// C12: one random number per random region resolved (single-round, single-request steps, scripted generator)
	if (w12 && st.rounds.size() == 1 && nReal == 1 && !(s.node->caps() & CAP_BUILTIN_RNG) && sh.usesUtility) {
		int draws = 0; for (auto& e : h.trace) if (e.k == EV_RNG) ++draws;
		w.checked("C12.draw_count");
		if (draws != r.randomResolved) {
			std::snprintf(b, sizeof b, "%s: the step resolved %d random region(s) but consumed %d random number(s)", h.role.c_str(), r.randomResolved, draws);
			w.violate("C12.draw_count", b, i);
		}
	}
}

void modelAfterOp(World& w, int i, const Op& op, const Obs& before) {
	Slot& s = w.slots[size_t(i)];
	if (!s.obs.alive) return;
	const Step st = analyse(*s.h);
	checkDelivery(w, i, op, before);
	checkRounds(w, i, op, before, st);
	checkGuardPending(w, i, op, before, st);
	checkHistory(w, i, op, before, st);
	checkBulkAppend(w, i, op, st);
	checkConfiguration(w, i, op, before, st);
}

} // namespace vf
