// engine_extra.cpp -- payload attribution (C14) and plan storage (C07 / C19) oracles.
#include "engine.hpp"
namespace vf {
void World::checkPayloads(int, const Op&, const Obs&) {}
void World::checkPlansStorage(int, const Op&, const Obs&) {}
}
