// engine_extra.cpp -- plan storage (C07 / C19), plan execution (C06) and payload attribution (C14) oracles.
#include "engine.hpp"
#include <algorithm>
#include <cstdio>

namespace vf {

namespace {

int firstGuardEvent(const Harness& h) {
	for (size_t k = 0; k < h.trace.size(); ++k) { const Ev& e = h.trace[k]; if ((e.k == EV_CB || e.k == EV_INJ) && (e.method == M_ENTRY_GUARD || e.method == M_EXIT_GUARD)) return int(k); }
	return -1;
}

bool isPass(int m) { return m == M_PRE_UPDATE || m == M_UPDATE || m == M_POST_UPDATE || m == M_PRE_REACT || m == M_REACT || m == M_POST_REACT; }

bool subsequence(const std::vector<TaskV>& small, const std::vector<TaskV>& big) {
	size_t j = 0;
	for (size_t k = 0; k < big.size() && j < small.size(); ++k) if (small[j] == big[k]) ++j;
	return j == small.size();
}

struct Edit { int type, region, kind, origin, dest, index; bool ok, hasP; int64_t p; int ev; };

Edit decode(const Ev& e, int at) {
	Edit d{};
	d.type = e.a & 0xFF; d.region = (e.a >> 8) & 0xFF; d.kind = (e.a >> 16) & 0xFF; d.ev = at;
	if (d.type == A_PLAN_APPEND) { d.origin = e.b; d.dest = e.c & 0xFFFF; d.ok = (e.c & 0x10000) != 0; d.hasP = e.hasP; d.p = e.p; }
	else if (d.type == A_PLAN_REMOVE) { d.index = e.b; d.ok = e.c != 0; }
	return d;
}

} // namespace

// ---- C07 / C19: the per-region lists, the pool, the links -------------------------------------------------------------------

void World::checkPlansStorage(int i, const Op& op, const Obs& before) {
	Slot& s = slots[size_t(i)];
	if (!(s.node->caps() & CAP_PLANS) || !s.obs.alive) return;
	const bool w07 = wants("C07"), w19 = wants("C19"), w06 = wants("C06");
	if (!w07 && !w19 && !w06) return;
	Harness& h = *s.h;
	const Shape& sh = *h.shape;
	char b[300];
	const int capacity = s.node->taskCapacity();

	// 1. link structure through the probe: disjoint acyclic doubly linked lists, lengths add up, vacant list well formed
	PlanProbe pp; s.node->probePlans(pp);
	if (w07 || w19) {
		checked("C07.links");
		std::vector<int> owner(size_t(pp.capacity), -1);
		int total = 0;
		for (int g = 0; g < sh.nRegions; ++g) {
			int prev = -1, len = 0;
			for (int t = pp.boundFirst[size_t(g)]; t != -1; t = pp.linkNext[size_t(t)]) {
				if (t < 0 || t >= pp.capacity) { std::snprintf(b, sizeof b, "%s: plan of region %d links to slot %d outside the pool", h.role.c_str(), g, t); violate("C07.links", b, i); return; }
				if (owner[size_t(t)] != -1) { std::snprintf(b, sizeof b, "%s: task slot %d is linked twice (regions %d and %d): plans are not disjoint / acyclic", h.role.c_str(), t, owner[size_t(t)], g); violate("C07.links", b, i); return; }
				owner[size_t(t)] = g;
				if (pp.linkPrev[size_t(t)] != prev) { std::snprintf(b, sizeof b, "%s: region %d: slot %d has prev link %d, expected %d", h.role.c_str(), g, t, pp.linkPrev[size_t(t)], prev); violate("C07.links", b, i); return; }
				prev = t; ++len;
				if (len > pp.capacity) break;
			}
			if (pp.boundLast[size_t(g)] != prev) { std::snprintf(b, sizeof b, "%s: region %d: last bound %d but the list ends at %d", h.role.c_str(), g, pp.boundLast[size_t(g)], prev); violate("C07.links", b, i); return; }
			if (len != int(s.obs.plans[size_t(g)].size())) { std::snprintf(b, sizeof b, "%s: region %d: %d linked tasks but iteration yields %zu", h.role.c_str(), g, len, s.obs.plans[size_t(g)].size()); violate("C07.links", b, i); return; }
			total += len;
		}
		if (total != pp.count) { std::snprintf(b, sizeof b, "%s: plans hold %d tasks but the pool counts %d", h.role.c_str(), total, pp.count); violate("C07.links", b, i); return; }
		checked("C19.pool");
		if (pp.count > pp.capacity || pp.count < 0) { violate("C19.pool", h.role + ": pool count out of range", i); return; }
		if (pp.count < pp.capacity) {
			// vacant chain: never a live slot, ends at the tail, no cycle
			// walk from the head until the tail is reached (what lies behind the tail is stale storage after clear())
			int steps = 0, t = pp.vacantHead;
			if (t < 0 || t >= pp.capacity || pp.vacantTail < 0 || pp.vacantTail >= pp.capacity) { violate("C19.pool", h.role + ": pool not full but no vacant head / tail", i); return; }
			for (;;) {
				if (t < 0 || t >= pp.capacity) { violate("C19.pool", h.role + ": vacant list leaves the pool before reaching its tail", i); return; }
				if (owner[size_t(t)] != -1) { std::snprintf(b, sizeof b, "%s: slot %d is both in use (region %d) and on the vacant list", h.role.c_str(), t, owner[size_t(t)]); violate("C19.pool", b, i); return; }
				if (t == pp.vacantTail) break;
				t = pp.itemNext[size_t(t)];
				if (++steps > pp.capacity) { violate("C19.pool", h.role + ": vacant list is cyclic", i); return; }
			}
		} else if (pp.vacantHead != -1 || pp.vacantTail != -1) { violate("C19.pool", h.role + ": pool full but vacant list not empty", i); return; }
		if (pp.count == pp.capacity) probe("pool_full");
		if (pp.count == 0 && before.alive && !before.plans.empty()) { size_t n0 = 0; for (auto& p : before.plans) n0 += p.size(); if (n0) probe("pool_emptied"); }
	}

	// 2. the edits of this op applied to a vector-per-region model
	if (!before.alive || before.plans.size() != s.obs.plans.size()) return;
	std::vector<std::vector<TaskV>> model = before.plans;
	std::vector<Edit> edits;
	int lastPassEv = -1, firstAfterPass = -1;
	for (size_t k = 0; k < h.trace.size(); ++k) {
		const Ev& e = h.trace[k];
		if (e.k == EV_PLAN_EDIT) edits.push_back(decode(e, int(k)));
		if ((e.k == EV_CB || e.k == EV_INJ) && isPass(e.method)) lastPassEv = int(k);
		else if ((e.k == EV_CB || e.k == EV_INJ) && lastPassEv >= 0 && firstAfterPass < 0) firstAfterPass = int(k);
	}
	const bool step = op.kind == OP_UPDATE || op.kind == OP_REACT;
	const bool wipes = op.kind == OP_EXIT || op.kind == OP_SNAPSHOT || op.kind == OP_DELIVER || op.kind == OP_RESTART || (op.kind == OP_ENTER && !before.activated);
	if (wipes && edits.empty()) return;      // exit() and load() clear the plan data; nothing to compare
	bool exact = !wipes;
	int count = 0; for (auto& p : model) count += int(p.size());
	std::vector<std::vector<TaskV>> execModel; bool execTaken = false;   // the plans as they stood when the passes ended (what the executor saw)
	for (const Edit& e : edits) {
		if (e.region < 0 || e.region >= sh.nRegions) continue;
		const bool afterExecution = step && firstAfterPass >= 0 && e.ev > firstAfterPass;   // edits made inside the last pass callback still precede the executor
		if (afterExecution && !execTaken) { execModel = model; execTaken = true; }
		if (afterExecution) exact = false;       // executed tasks are gone by now: indices and counts are no longer known to this model
		auto& pl = model[size_t(e.region)];
		if (e.type == A_PLAN_APPEND) {
			if (!afterExecution && (w07 || w19)) {
				checked("C07.append_result");
				if (e.ok != (count < capacity)) {
					std::snprintf(b, sizeof b, "%s: append to region %d returned %s with %d of %d tasks stored", h.role.c_str(), e.region, e.ok ? "true" : "false", count, capacity);
					violate("C07.append_result", b, i); return;
				}
				if (!e.ok) probe("append_rejected_at_capacity");
			}
			if (e.ok) { TaskV t; t.origin = e.origin; t.dest = e.dest; t.kind = e.kind; t.hasPayload = e.hasP; t.payload = e.p; pl.push_back(t); ++count; ++s.appendsOk; }
		} else if (e.type == A_PLAN_CLEAR) { count -= int(pl.size()); pl.clear(); }
		else if (e.type == A_PLAN_REMOVE) {
			if (!afterExecution) {
				if (e.ok != (e.index >= 0 && e.index < int(pl.size())) && (w07 || w19)) { violate("C07.remove", h.role + ": remove-while-iterating reported the wrong outcome", i); return; }
				if (e.ok && e.index < int(pl.size())) { pl.erase(pl.begin() + e.index); --count; ++s.removals; if (s.appendsOk > s.removals) probe("slot_recycled_candidate"); }
			} else if (e.ok) exact = false;
		}
	}
	if (!execTaken) execModel = model;
	if (w07 || w19) {
		uint64_t hh = std::hash<std::string>()(sh.name);
		for (size_t g = 0; g < s.obs.plans.size(); ++g) hh = mix64(hh, s.obs.plans[g].size() * 31 + g);
		hh = mix64(hh, uint64_t(pp.vacantHead + 1) * 64 + uint64_t(pp.last));
		distinct(hh);
		for (int g = 0; g < sh.nRegions; ++g) {
			const auto& now = s.obs.plans[size_t(g)];
			const auto& want = model[size_t(g)];
			checked("C07.contents");
			if (!now.empty() && now.back().origin == -99) { violate("C07.links", h.role + ": iterating the plan of region " + std::to_string(g) + " yields more tasks than the pool can hold: the list is cyclic", i); return; }
			if (!step && exact) {
				if (!(now == want)) {
					std::snprintf(b, sizeof b, "%s: after %s the plan of region %d holds %zu task(s); the edits applied to its previous content give %zu (order / origin / destination / kind / payload must match)", h.role.c_str(), opName(op.kind), g, now.size(), want.size());
					violate("C07.contents", b, i); return;
				}
			} else if (exact || step) {
				// a step may have executed (removed) tasks: what remains is an ordered sub-sequence with untouched contents
				if (exact && !subsequence(now, want)) {
					std::snprintf(b, sizeof b, "%s: after %s the plan of region %d (%zu tasks) is not an ordered sub-sequence of what the edits produce (%zu tasks)", h.role.c_str(), opName(op.kind), g, now.size(), want.size());
					violate("C07.contents", b, i); return;
				}
			}
		}
	}

	// 3. plan execution (C06)
	if (!step) {
		// marks set from guards / enter / exit of an immediate transition wait for the next step
		s.extSuccess.resize(size_t(sh.n), 0); s.extFailure.resize(size_t(sh.n), 0);
		for (auto& e : h.trace) {
			if (e.state < 0) continue;     // client calls are recorded where they are made
			if (e.k == EV_SUCCEED && e.a > 0 && e.a < sh.n) s.extSuccess[size_t(e.a)] = 1;
			if (e.k == EV_FAIL && e.a > 0 && e.a < sh.n) s.extFailure[size_t(e.a)] = 1;
			if (e.k == EV_PLAN_EDIT && (e.a & 0xFF) == A_PLAN_CLEAR) { const int g = (e.a >> 8) & 0xFF; if (g >= 0 && g < sh.nRegions) { const int hd = sh.regionHead[size_t(g)]; for (int x = hd; x < hd + sh.st[size_t(hd)].size; ++x) s.extSuccess[size_t(x)] = s.extFailure[size_t(x)] = 0; } }
			if (e.k == EV_CB && e.method == M_EXIT) s.extSuccess[size_t(e.state)] = s.extFailure[size_t(e.state)] = 0;
		}
		if (op.kind == OP_PLAN_CLEAR && op.a >= 0 && op.a < sh.nRegions) { const int hd = sh.regionHead[size_t(op.a)]; for (int x = hd; x < hd + sh.st[size_t(hd)].size; ++x) s.extSuccess[size_t(x)] = s.extFailure[size_t(x)] = 0; }
		return;
	}
	if (!w06 || !before.activated) { std::fill(s.extSuccess.begin(), s.extSuccess.end(), 0); std::fill(s.extFailure.begin(), s.extFailure.end(), 0); return; }
	// success / failure marks of this step: external ones waiting since the last step, and those set in callbacks
	std::vector<uint8_t> succ = s.extSuccess, fail = s.extFailure;
	succ.resize(size_t(sh.n), 0); fail.resize(size_t(sh.n), 0);
	std::vector<uint8_t> lateS(size_t(sh.n), 0), lateF(size_t(sh.n), 0);   // set after the passes (guards, enter, exit): they wait for the next step
	for (size_t k = 0; k < h.trace.size(); ++k) {
		const Ev& e = h.trace[k];
		const bool late = lastPassEv >= 0 && int(k) > lastPassEv && firstAfterPass >= 0 && int(k) > firstAfterPass;
		int target = -1, ok = 0;
		if (e.k == EV_SUCCEED && e.a > 0 && e.a < sh.n) { target = e.a; ok = 1; }
		if (e.k == EV_FAIL && e.a > 0 && e.a < sh.n) { target = e.a; ok = 0; }
		if (e.k == EV_DEFAULT && e.state > 0) { target = e.state; ok = e.method == M_PLAN_SUCCEEDED; }
		if (target >= 0) {
			// marks set from plan callbacks belong to this step; marks set from guards / enter / exit come after the plans were processed
			const bool fromPlanCb = e.method == M_PLAN_SUCCEEDED || e.method == M_PLAN_FAILED;
			if (late && !fromPlanCb) (ok ? lateS : lateF)[size_t(target)] = 1; else (ok ? succ : fail)[size_t(target)] = 1;
		}
		if (e.k == EV_PLAN_EDIT && (e.a & 0xFF) == A_PLAN_CLEAR) {
			const int g = (e.a >> 8) & 0xFF;
			if (g >= 0 && g < sh.nRegions) { const int hd = sh.regionHead[size_t(g)]; for (int x = hd; x < hd + sh.st[size_t(hd)].size; ++x) { if (!late) succ[size_t(x)] = fail[size_t(x)] = 0; lateS[size_t(x)] = lateF[size_t(x)] = 0; } }
		}
		if (e.k == EV_CB && e.method == M_EXIT && late) { lateS[size_t(e.state)] = lateF[size_t(e.state)] = 0; }
	}
	s.extSuccess = lateS; s.extFailure = lateF;
	// marks never survive the step that consumed them
	checked("C06.marks_cleared");
	for (int k = 0; k < sh.n; ++k) if ((pp.success[size_t(k)] && !lateS[size_t(k)]) || (pp.failure[size_t(k)] && !lateF[size_t(k)])) {
		std::snprintf(b, sizeof b, "%s: the %s mark of state %d survived the step", h.role.c_str(), pp.success[size_t(k)] ? "success" : "failure", k); violate("C06.marks_cleared", b, i); return; }
	// plan-issued requests: first-round pending entries (or queued leftovers) whose origin is a region head and that no callback issued
	const int fge = firstGuardEvent(h);
	std::vector<Tr> issuedByUser;
	for (auto& q : before.queued) issuedByUser.push_back(q);
	for (size_t k = 0; k < h.trace.size(); ++k) { const Ev& e = h.trace[k]; if (e.k == EV_ISSUE && (fge < 0 || int(k) < fge)) { Tr t; t.origin = e.state; t.kind = e.a; t.dest = e.b; t.hasPayload = e.hasP; t.payload = e.p; issuedByUser.push_back(t); } }
	std::vector<Tr> firstRound;
	if (!h.guards.empty()) firstRound = h.guards.front().pending; else firstRound = s.obs.queued;
	std::vector<Tr> planIssued;
	bool issuedKnown = true;
	if (!h.guards.empty() || !s.obs.queued.empty()) {
		size_t j = 0; for (auto& q : firstRound) { if (j < issuedByUser.size() && q == issuedByUser[j]) { ++j; continue; } planIssued.push_back(q); }
	} else if (h.loggerOn) {
		// the logger hears every request; those nobody issued from a callback come from plans (payloads are not part of the record: take them from the queue when present)
		std::vector<Ev> logged, issuedEv;
		for (auto& e : h.trace) { if (e.k == EV_LOG_TRANSITION) logged.push_back(e); if (e.k == EV_ISSUE) issuedEv.push_back(e); }
		size_t j = 0;
		for (auto& l : logged) {
			if (j < issuedEv.size() && l.state == issuedEv[j].state && l.a == issuedEv[j].a && l.b == issuedEv[j].b) { ++j; continue; }
			Tr t; t.origin = l.state; t.kind = l.a; t.dest = l.b; t.method = 99;   // 99: payload not known from this source
			if (t.origin >= 0 && sh.isRegion(t.origin)) planIssued.push_back(t);
		}
	} else issuedKnown = false;    // no guard ran and no logger listened: requests that changed nothing left no trace
	// tasks that disappeared from the (edited) plans
	bool editsAfterPass = false; for (auto& e : edits) if (firstAfterPass >= 0 && e.ev > firstAfterPass) editsAfterPass = true;
	// plans edited from inside planSucceeded / planFailed (between the executors of nested and enclosing regions): the snapshot the executors saw is not reconstructed
	bool editInPlanCallback = false; for (auto& e : h.trace) if (e.k == EV_PLAN_EDIT && (e.method == M_PLAN_SUCCEEDED || e.method == M_PLAN_FAILED)) editInPlanCallback = true;
	if (editInPlanCallback) probe("plan_edited_inside_plan_callback");
	for (const Tr& q : planIssued) {
		if (editInPlanCallback) break;
		checked("C06.issued_matches_task");
		probe("plan_task_executed");
		if (q.origin < 0 || !sh.isRegion(q.origin)) { std::snprintf(b, sizeof b, "%s: request %s(%d) from %d appeared in the queue although nobody issued it", h.role.c_str(), kindName(q.kind), q.dest, q.origin); violate("C06.issued_matches_task", b, i); return; }
		const int g = sh.st[size_t(q.origin)].region;
		const auto& pl = execModel[size_t(g)];
		bool found = false, kindOk = false, originOk = false;
		for (auto& t : pl) {
			if (t.dest != q.dest) continue;
			if (q.method != 99 && (t.hasPayload != q.hasPayload || (t.hasPayload && t.payload != q.payload))) continue;
			found = true;
			if (t.kind == q.kind) kindOk = true;
			if (before.active[size_t(t.origin)] && succ[size_t(t.origin)]) originOk = true;
		}
		if (!found) { std::snprintf(b, sizeof b, "%s: region %d issued %s(%d)%s on behalf of its plan, but no stored task has that destination and payload", h.role.c_str(), q.origin, kindName(q.kind), q.dest, q.hasPayload ? " with payload" : ""); violate("C06.issued_matches_task", b, i); return; }
		if (!originOk) { std::snprintf(b, sizeof b, "%s: region %d executed a task to %d whose origin was not active-and-succeeded in this step", h.role.c_str(), q.origin, q.dest); violate("C06.issued_matches_task", b, i); return; }
		// ... and no earlier task of that plan has an inactive origin (take the first stored task that fits; earlier ones must all have active origins)
		{
			checked("C06.order");
			bool blocked = false, fits = false;
			for (auto& t : pl) {
				const bool match = t.dest == q.dest && (q.method == 99 || (t.hasPayload == q.hasPayload && (!t.hasPayload || t.payload == q.payload))) && before.active[size_t(t.origin)] && succ[size_t(t.origin)];
				if (match && !blocked) { fits = true; break; }
				if (!before.active[size_t(t.origin)]) blocked = true;
			}
			if (!fits) { std::snprintf(b, sizeof b, "%s: region %d executed its task to %d although an earlier task of that plan has an inactive origin", h.role.c_str(), q.origin, q.dest); violate("C06.order", b, i); return; }
		}
		if (!kindOk) { std::snprintf(b, sizeof b, "%s: region %d executed its task to %d as '%s', the task was created with another kind", h.role.c_str(), q.origin, q.dest, kindName(q.kind)); violate("C06.task_kind", b, i, q.kind == K_CHANGE ? "plan_task_kind_ignored" : ""); return; }
	}
	// executed tasks are removed, exactly once each: per region, stored-before-minus-stored-after must equal what was issued (when nothing else edited the plans afterwards)
	if (!editsAfterPass && issuedKnown) for (int g = 0; g < sh.nRegions; ++g) {
		const auto& want = model[size_t(g)];
		const auto& now = s.obs.plans[size_t(g)];
		if (!subsequence(now, want)) continue;    // reported by C07
		int removed = int(want.size()) - int(now.size());
		int issued = 0; for (auto& q : planIssued) if (q.origin == sh.regionHead[size_t(g)]) ++issued;
		// planSucceeded clears the (empty) plan, exit of the region keeps tasks: only compare when something was issued or removed
		if (removed == 0 && issued == 0) continue;
		checked("C06.removed_once");
		if (removed != issued) {
			std::snprintf(b, sizeof b, "%s: region %d issued %d plan transition(s) but %d task(s) disappeared from its plan", h.role.c_str(), g, issued, removed);
			// the queue may have been full: the request is dropped while the task is still removed
			violate("C06.removed_once", b, i, int(firstRound.size()) >= sh.compoCount ? "plan_task_dropped_when_queue_full" : ""); return;
		}
	}
	// completeness in the simple situation the statement describes: marks only on active direct leaf sub-states of one region
	for (int g = 0; g < sh.nRegions; ++g) {
		const int head = sh.regionHead[size_t(g)];
		if (!before.active[size_t(head)] || !pp.planExists[size_t(g)]) continue;
		bool simple = true, anySucc = false, anyFail = false;
		for (int k = 1; k < sh.n; ++k) {
			if (!succ[size_t(k)] && !fail[size_t(k)]) continue;
			const bool direct = sh.st[size_t(k)].parent == head && !sh.isRegion(k) && before.active[size_t(k)];
			if (!direct) { simple = false; break; }
			if (succ[size_t(k)]) anySucc = true;
			if (fail[size_t(k)]) anyFail = true;
		}
		if (!simple && op.kind == OP_UPDATE && before.queued.empty() && !before.plans[size_t(g)].empty()) {
			// nested variant: successes self-reported (during preUpdate / update) by active plain states further down, below composite regions only, whose own plans hold
			// no task: the report travels up through those regions (an empty attached plan answers planSucceeded and passes it on), and every task of g whose
			// origin reported must be executed in this very step. A lower bound: tasks of region heads that succeeded on the way may be executed too.
			bool ok = true; std::set<int> marked;
			for (auto& e : h.trace) {
				if (e.k == EV_ISSUE || e.k == EV_PLAN_EDIT || e.k == EV_FAIL) ok = false;
				if (e.k == EV_SUCCEED) { if (e.state < 0 || e.state != e.a || !(e.method == M_UPDATE || e.method == M_PRE_UPDATE)) ok = false; else marked.insert(e.a); }
			}
			// marks left over from earlier steps or set by the client: not this situation. Region heads below g succeed on the way up through the default planSucceeded of this step only.
			for (int k = 0; ok && k < sh.n; ++k) {
				if (fail[size_t(k)]) ok = false;
				if (!succ[size_t(k)] || marked.count(k)) continue;
				bool viaDefault = false; for (auto& e : h.trace) if (e.k == EV_DEFAULT && e.method == M_PLAN_SUCCEEDED && e.state == k) viaDefault = true;
				if (!(sh.isRegion(k) && k != head && viaDefault)) ok = false;
			}
			for (int k : marked) {
				if (!ok) break;
				if (sh.isRegion(k) || !before.active[size_t(k)] || !sh.inSubtree(k, head) || k == head) { ok = false; break; }
				for (int x = sh.st[size_t(k)].parent; x != head && x >= 0; x = sh.st[size_t(x)].parent) {
					if (!sh.isCompo(x)) { ok = false; break; }
					const int rx = sh.st[size_t(x)].region;
					if (rx >= 0 && rx < int(before.plans.size()) && !before.plans[size_t(rx)].empty()) { ok = false; break; }
				}
			}
			if (getenv("VF_DEBUG_MODEL")) fprintf(stderr, "model: nested g=%d head=%d ok=%d marked=%zu firstRound=%zu issuedKnown=%d\n", g, head, int(ok), marked.size(), firstRound.size(), int(issuedKnown));
			if (ok && !marked.empty() && int(firstRound.size()) < sh.compoCount) {
				checked("C06.complete_nested");
				const auto& pl2 = before.plans[size_t(g)];
				std::vector<Tr> expect2; std::set<int> spent2;
				for (auto& t : pl2) {
					if (!before.active[size_t(t.origin)]) break;
					if (spent2.count(t.origin)) continue;
					if (t.origin == t.dest && marked.count(t.origin)) spent2.insert(t.origin);
					if (marked.count(t.origin)) { Tr q; q.origin = head; q.dest = t.dest; q.hasPayload = t.hasPayload; q.payload = t.payload; expect2.push_back(q); }
				}
				// evidence: an executed task is removed from the plan (nothing else edits plans in this step)
				const size_t left = s.obs.plans[size_t(g)].size();
				const size_t j = pl2.size() >= left ? std::min(expect2.size(), pl2.size() - left) : 0;
				if (j != expect2.size()) {
					std::snprintf(b, sizeof b, "%s: region %d: %zu task(s) whose origin (a state below a nested region with an empty plan) reported success in this step were due, %zu of them were executed", h.role.c_str(), head, expect2.size(), j);
					violate("C06.complete_nested", b, i); return;
				}
				if (!expect2.empty()) probe("nested_origin_task_executed");
			}
		}
		if (!simple || (!anySucc && !anyFail)) continue;
		// no transition requested by anybody in the passes (outer-transition suppression is not modelled), no edits in the passes
		bool quiet = true;
		for (auto& e : h.trace) {
			if (e.k == EV_PLAN_EDIT) quiet = false;
			// "no transition out of the region is requested": by the region's own states; what other regions ask for is their business
			if (e.k == EV_ISSUE && (e.state < 0 || sh.inSubtree(e.state, head) || sh.inSubtree(head, e.state))) quiet = false;
		}
		// a callback reporting on behalf of another state credits the caller's position: only self-reports and client calls are the statement's "a sub-state succeeds"
		for (auto& e : h.trace) if ((e.k == EV_SUCCEED || e.k == EV_FAIL) && e.state >= 0 && e.state != e.a) quiet = false;
		if (!quiet || !before.queued.empty() || !issuedKnown) continue;
		// documented: a plain state directly below an orthogonal region has no scope of its own, the "transition out of here" flag it raises is still set when the next sibling region is visited
		bool leafSiblingIssued = false;
		{ int others = 0; for (auto& e : h.trace) if (e.k == EV_ISSUE) { ++others; const int par = e.state >= 0 ? sh.st[size_t(e.state)].parent : -1; if (par >= 0 && sh.isOrtho(par) && !sh.isRegion(e.state)) leafSiblingIssued = true; } if (others) probe("plan_complete_with_foreign_requests"); }
		// nested plan-owning regions between are excluded by "direct leaf"; ancestors may also react, that is their business
		const auto& pl = before.plans[size_t(g)];
		int planCb = 0, planCbKind = 0;
		for (auto& e : h.trace) if (e.k == EV_CB && e.state == head && (e.method == M_PLAN_SUCCEEDED || e.method == M_PLAN_FAILED)) { ++planCb; planCbKind = e.method; }
		checked("C06.complete");
		distinct(mix64(mix64(0xC06, std::hash<std::string>()(sh.name)), uint64_t(g) * 4096 + pl.size() * 8 + (anyFail ? 4 : 0) + (anySucc ? 2 : 0)));
		const bool bottomUp = (s.node->caps() & CAP_BOTTOMUP) != 0;
		bool childrenFirst = false;   // documented: in phases that visit sub-states before their head the head's pass returns the sub-state's status as its own
		for (auto& e : h.trace) if ((e.k == EV_SUCCEED || e.k == EV_FAIL) && (e.method == M_POST_UPDATE || (!bottomUp && e.method == M_POST_REACT) || (bottomUp && (e.method == M_PRE_REACT || e.method == M_REACT)))) childrenFirst = true;
		if (anyFail) {
			if (!sh.st[size_t(head)].headless && !(planCb == 1 && planCbKind == M_PLAN_FAILED)) {
				std::snprintf(b, sizeof b, "%s: a sub-state of plan-owning region %d failed, but its head received %d plan callback(s)", h.role.c_str(), head, planCb);
				violate("C06.complete", b, i, childrenFirst ? "substate_status_taken_for_head_status" : (leafSiblingIssued ? "outer_transition_flag_leaks_from_leaf_sibling" : "")); return; }
			continue;
		}
		// success only: every task (in order, while origins are active) whose origin succeeded must have been issued
		std::vector<Tr> expect;
		std::set<int> spent;   // a cyclic task (origin == destination) uses up its origin's success: later tasks of that origin wait for the next one
		for (auto& t : pl) {
			if (!before.active[size_t(t.origin)]) break;
			if (spent.count(t.origin)) continue;
			if (t.origin == t.dest && succ[size_t(t.origin)]) spent.insert(t.origin);
			if (succ[size_t(t.origin)]) { Tr q; q.origin = head; q.dest = t.dest; q.kind = t.kind; q.hasPayload = t.hasPayload; q.payload = t.payload; expect.push_back(q); }
		}
		std::vector<Tr> got; for (auto& q : planIssued) if (q.origin == head) got.push_back(q);
		if (pl.empty()) {
			if (!sh.st[size_t(head)].headless && !(planCb == 1 && planCbKind == M_PLAN_SUCCEEDED)) {
				std::snprintf(b, sizeof b, "%s: a sub-state of region %d succeeded and its attached plan is empty, but the head received %d plan callback(s)", h.role.c_str(), head, planCb); violate("C06.complete", b, i, childrenFirst ? "substate_status_taken_for_head_status" : (leafSiblingIssued ? "outer_transition_flag_leaks_from_leaf_sibling" : "")); return; }
			probe("plan_succeeded_delivered");
		} else {
			bool same = got.size() == expect.size();
			for (size_t k = 0; same && k < got.size(); ++k) same = got[k].dest == expect[k].dest && (got[k].method == 99 || (got[k].hasPayload == expect[k].hasPayload && (!got[k].hasPayload || got[k].payload == expect[k].payload)));
			if (!same && int(firstRound.size()) < sh.compoCount) {
				std::snprintf(b, sizeof b, "%s: region %d: %zu task(s) were due (origin active and succeeded), %zu were executed", h.role.c_str(), head, expect.size(), got.size());
				violate("C06.complete", b, i, childrenFirst ? "substate_status_taken_for_head_status" : (leafSiblingIssued ? "outer_transition_flag_leaks_from_leaf_sibling" : "")); return; }
		}
	}
}

// ---- C14: payload attribution ----------------------------------------------------------------------------------------------------

// C02: "picks its sub-state by the request kind" starts with the request being queued as the kind (and destination) the caller named
void World::checkIssuedKinds(int i, const Op& op, const Obs& before) {
	if (!wants("C02")) return;
	Slot& s = slots[size_t(i)];
	if (!s.obs.alive || !before.alive) return;
	Harness& h = *s.h;
	if (op.kind == OP_DELIVER || op.kind == OP_SNAPSHOT || op.kind == OP_RESTART || op.kind == OP_ENTER || op.kind == OP_RESET) return;
	char b[300];
	auto same = [](const Tr& x, const Tr& y) { return x.kind == y.kind && x.dest == y.dest && x.origin == y.origin; };
	const int fge = firstGuardEvent(h);
	std::vector<Tr> issued = before.queued;
	const size_t own = issued.size();
	for (size_t k = 0; k < h.trace.size(); ++k) {
		const Ev& e = h.trace[k];
		if (e.k == EV_ISSUE && (fge < 0 || int(k) < fge)) { Tr t; t.origin = e.state; t.kind = e.a; t.dest = e.b; issued.push_back(t); }
	}
	if (issued.size() == own) return;
	if (op.kind == OP_REQUEST && h.guards.empty()) {
		// nothing is processed: the queue grows by exactly what was asked for
		checked("C02.request_as_issued");
		const auto& q = s.obs.queued;
		bool ok = q.size() == issued.size();
		for (size_t k = 0; ok && k < q.size(); ++k) ok = same(q[k], issued[k]);
		if (!ok) {
			std::snprintf(b, sizeof b, "%s: the client asked for %s(%d); the queue now holds %zu request(s)%s%s", h.role.c_str(), kindName(issued.back().kind), issued.back().dest, q.size(),
				q.empty() ? "" : ", the last one being ", q.empty() ? "" : (std::string(kindName(q.back().kind)) + "(" + std::to_string(q.back().dest) + ")").c_str());
			violate("C02.request_as_issued", b, i);
		}
		return;
	}
	if (!h.guards.empty() && int(issued.size()) <= h.shape->compoCount) {
		checked("C02.request_as_issued");
		const auto& pend = h.guards.front().pending;
		size_t j = 0;
		for (size_t k = 0; k < pend.size() && j < issued.size(); ++k) if (same(pend[k], issued[j])) ++j;
		if (j != issued.size()) {
			const Tr& t = issued[j];
			std::snprintf(b, sizeof b, "%s: %s(%d) was asked for (by %d) but is not, as that kind and destination and in order, among what the first guard round sees as pending", h.role.c_str(), kindName(t.kind), t.dest, t.origin);
			violate("C02.request_as_issued", b, i);
		}
	}
}

void World::checkPayloads(int i, const Op& op, const Obs& before) {
	if (!wants("C14")) return;
	Slot& s = slots[size_t(i)];
	if (!(s.node->caps() & CAP_PAYLOAD) || !s.obs.alive) return;
	Harness& h = *s.h;
	char b[300];
	auto intact = [&](const std::vector<Tr>& v, const char* where) {
		for (auto& t : v) if (t.hasPayload && !t.payloadIntact) { std::snprintf(b, sizeof b, "%s: payload of %s(%d) seen through %s is damaged or misaligned", h.role.c_str(), kindName(t.kind), t.dest, where); violate("C14.intact", b, i); return false; }
		return true;
	};
	checked("C14.intact");
	if (!intact(s.obs.prev, "previousTransitions()") || !intact(s.obs.queued, "requests()")) return;
	for (auto& g : h.guards) if (!intact(g.pending, "pendingTransitions()") || !intact(g.current, "currentTransitions()")) return;

	if (op.kind == OP_DELIVER || op.kind == OP_SNAPSHOT || op.kind == OP_RESTART) return;   // replicas get their history from the transport
	// issued requests reach the guards unchanged: everything callbacks or the client issued before the first guard is in the first round's pending list, in order
	const int fge = firstGuardEvent(h);
	std::vector<Tr> issued = before.alive ? before.queued : std::vector<Tr>{};
	for (size_t k = 0; k < h.trace.size(); ++k) {
		const Ev& e = h.trace[k];
		if (e.k == EV_ISSUE && (fge < 0 || int(k) < fge)) { Tr t; t.origin = e.state; t.kind = e.a; t.dest = e.b; t.hasPayload = e.hasP; t.payload = e.p; issued.push_back(t); }
	}
	if (!h.guards.empty()) {
		checked("C14.pending");
		const auto& pend = h.guards.front().pending;
		size_t j = 0;
		for (size_t k = 0; k < pend.size() && j < issued.size(); ++k) if (pend[k] == issued[j]) ++j;
		if (j != issued.size() && int(issued.size()) <= h.shape->compoCount) {
			const Tr& t = issued[j];
			std::snprintf(b, sizeof b, "%s: request %s(%d)%s issued from %d is not (unchanged, in order) among what the guards see as pending", h.role.c_str(), kindName(t.kind), t.dest, t.hasPayload ? (" with payload " + std::to_string(t.payload)).c_str() : " without payload", t.origin);
			violate("C14.pending", b, i); return;
		}
		uint64_t hh = 0xC14; for (auto& t : pend) hh = mix64(hh, uint64_t(t.kind) * 64 + uint64_t(t.dest) * 2 + (t.hasPayload ? 1 : 0)); distinct(mix64(hh, std::hash<std::string>()(h.shape->name)));
	}
	// all payload values seen anywhere must be values somebody attached (no mixing, no invention)
	std::vector<std::pair<int64_t, Tr>> known;
	auto learn = [&](const Tr& t) { if (t.hasPayload) known.emplace_back(t.payload, t); };
	for (auto& t : issued) learn(t);
	for (size_t k = 0; k < h.trace.size(); ++k) { const Ev& e = h.trace[k]; if (e.k == EV_ISSUE && e.hasP) { Tr t; t.origin = e.state; t.kind = e.a; t.dest = e.b; t.hasPayload = true; t.payload = e.p; learn(t); } }
	if (before.alive) { for (auto& p : before.plans) for (auto& t : p) if (t.hasPayload) { Tr q; q.dest = t.dest; q.kind = t.kind; q.hasPayload = true; q.payload = t.payload; q.origin = -2; known.emplace_back(t.payload, q); } for (auto& t : before.prev) learn(t); }
	for (size_t k = 0; k < h.trace.size(); ++k) { const Ev& e = h.trace[k]; if (e.k == EV_PLAN_EDIT && (e.a & 0xFF) == A_PLAN_APPEND && e.hasP) { Tr q; q.dest = e.c & 0xFFFF; q.kind = (e.a >> 16) & 0xFF; q.hasPayload = true; q.payload = e.p; q.origin = -2; known.emplace_back(e.p, q); } }
	auto attributable = [&](const Tr& t, const char* where) {
		if (!t.hasPayload) return true;
		for (auto& kv : known) if (kv.first == t.payload && kv.second.dest == t.dest) return true;
		std::snprintf(b, sizeof b, "%s: %s shows %s(%d) carrying payload %lld, which nobody attached to a request for that destination", h.role.c_str(), where, kindName(t.kind), t.dest, (long long) t.payload);
		violate("C14.attribution", b, i); return false;
	};
	checked("C14.attribution");
	for (auto& g : h.guards) { for (auto& t : g.pending) if (!attributable(t, "pendingTransitions()")) return; for (auto& t : g.current) if (!attributable(t, "currentTransitions()")) return; }
	for (auto& t : s.obs.prev) if (!attributable(t, "previousTransitions()")) return;
	for (auto& v : h.views) { for (auto& t : v.current) if (!attributable(t, "currentTransitions() inside enter")) return; if (v.has && !attributable(v.last, "lastTransition() inside update")) return; }

	// while being entered a state finds, in currentTransitions(), the approved requests so far -- among them the one that activates it
	for (auto& v : h.views) {
		if (v.method != M_ENTER) continue;
		if (op.kind == OP_ENTER || op.kind == OP_RESET || op.kind == OP_RESTART || op.kind == OP_SNAPSHOT || op.kind == OP_DELIVER) continue;
		checked("C14.current_in_enter");
		// must be a prefix-closed concatenation of approved rounds' pending lists
		std::vector<Tr> approved;
		{ int lastRound = -1; for (auto& g : h.guards) if (g.round != lastRound) { lastRound = g.round; bool cancelled = false; for (auto& g2 : h.guards) if (g2.round == g.round && g2.cancelled) cancelled = true; if (!cancelled) approved.insert(approved.end(), g.pending.begin(), g.pending.end()); } }
		// requests guards issued may have been applied by a further round that consulted nobody
		for (size_t k = 0; k < h.trace.size(); ++k) { const Ev& e = h.trace[k]; if (e.k == EV_ISSUE && fge >= 0 && int(k) >= fge) { Tr t; t.origin = e.state; t.kind = e.a; t.dest = e.b; t.hasPayload = e.hasP; t.payload = e.p; approved.push_back(t); } }
		if (h.guards.empty()) { approved = issued; for (size_t k = 0; k < h.trace.size(); ++k) { const Ev& e = h.trace[k]; if (e.k == EV_ISSUE && !(fge < 0 || int(k) < fge)) { Tr t; t.origin = e.state; t.kind = e.a; t.dest = e.b; t.hasPayload = e.hasP; t.payload = e.p; approved.push_back(t); } } }
		// without guards nobody sees the pending list: requests the plans issued during the pass are recognised by the task they execute
		auto fromPlan = [&](const Tr& t) {
			if (!h.guards.empty() || !before.alive || t.origin < 0 || !h.shape->isRegion(t.origin)) return false;
			const int reg = h.shape->st[size_t(t.origin)].region;
			if (reg < 0 || reg >= int(before.plans.size())) return false;
			// (the kind is not compared: the library issues every task as a plain change -- documented finding F-C06-2, decided by C06)
			for (auto& tk : before.plans[size_t(reg)]) if (tk.dest == t.dest && tk.hasPayload == t.hasPayload && (!t.hasPayload || tk.payload == t.payload)) return true;
			for (auto& e : h.trace) if (e.k == EV_PLAN_EDIT && (e.a & 0xFF) == A_PLAN_APPEND && int(e.c & 0xFFFF) == t.dest && e.hasP == t.hasPayload && (!t.hasPayload || e.p == t.payload)) return true;
			return false;
		};
		size_t j = 0;
		for (size_t k = 0; j < v.current.size();) {
			if (k < approved.size() && approved[k] == v.current[j]) { ++j; ++k; continue; }
			if (fromPlan(v.current[j])) { ++j; continue; }
			if (k >= approved.size()) break;
			++k;
		}
		if (j != v.current.size()) {
			std::snprintf(b, sizeof b, "%s: inside enter of %d currentTransitions() shows an entry (kind %s dest %d payload %lld) that is not one of the approved requests", h.role.c_str(), v.state,
				kindName(v.current[j].kind), v.current[j].dest, (long long) v.current[j].payload);
			violate("C14.current_in_enter", b, i); return;
		}
	}
	// afterwards: what update() callbacks read through lastTransition() is what the instance reports through lastTransitionTo()
	if (op.kind == OP_UPDATE && before.alive && before.activated && (s.node->caps() & CAP_HISTORY) && !before.lastTo.empty()) {
		for (auto& v : h.views) {
			if (v.method != M_UPDATE) continue;
			checked("C14.last_transition");
			const int idx = before.lastTo[size_t(v.state)];
			const bool expectHas = idx >= 0 && idx < int(before.prev.size());
			if (v.has != expectHas || (v.has && !(v.last == before.prev[size_t(idx)]))) {
				std::snprintf(b, sizeof b, "%s: state %d reads lastTransition() = %s during update, the instance reported %s for it after the previous step", h.role.c_str(), v.state, v.has ? "a transition" : "nothing", expectHas ? "a (different) transition" : "nothing");
				violate("C14.last_transition", b, i); return;
			}
		}
	}
	// a single approved request carrying a payload: every state it activated finds exactly that value
	if ((s.node->caps() & CAP_HISTORY) && before.alive && before.activated && s.obs.prev.size() == 1 && s.obs.prev[0].hasPayload && !s.obs.lastTo.empty()) {
		checked("C14.last_to_payload");
		for (int k = 0; k < h.shape->n; ++k) {
			const int idx = s.obs.lastTo[size_t(k)];
			bool guardIssued = false; for (auto& e : h.trace) if (e.k == EV_ISSUE && (e.method == M_ENTRY_GUARD || e.method == M_EXIT_GUARD)) guardIssued = true;
			if (idx < 0 && !before.active[size_t(k)] && s.obs.active[size_t(k)] && !h.guards.empty() && h.round == 0 && !guardIssued) {
				bool util = s.obs.prev[0].kind == K_UTILIZE || s.obs.prev[0].kind == K_RANDOMIZE;
				for (int x = h.shape->st[size_t(k)].parent; x >= 0; x = h.shape->st[size_t(x)].parent) if (h.shape->st[size_t(x)].strategy == 3 || h.shape->st[size_t(x)].strategy == 4) util = true;
				std::snprintf(b, sizeof b, "%s: the only approved request carried payload %lld and activated state %d, but lastTransitionTo(%d) is null", h.role.c_str(), (long long) s.obs.prev[0].payload, k, k);
				violate("C14.last_to_payload", b, i, util ? "last_to_unpinned_by_utility_resolution" : ""); return;
			}
			if (idx < 0) continue;
			Tr t; s.node->lastTransitionTo(k, t);
			if (!(t == s.obs.prev[0])) { std::snprintf(b, sizeof b, "%s: lastTransitionTo(%d) does not carry the payload of the only approved request", h.role.c_str(), k); violate("C14.last_to_payload", b, i); return; }
		}
	}
}

} // namespace vf
