// main.cpp -- command line of the simulator binary.
//   sim list
//   sim run    --lens L --seed S --count N [--start K --stride M] [--combos shape/config,...] [--avoid a,b] [--opt JSON] [--out FILE] [--replays DIR] [--budget SEC]
//   sim replay FILE
//   sim gen    --lens L --seed S --combo shape/config [--opt JSON]
#include "engine.hpp"
#include <cstdio>
#include <cstdlib>
#include <csignal>
#include <unistd.h>
#include <sys/time.h>
#include <chrono>
#include <sstream>

extern "C" void __sanitizer_set_death_callback(void (*)(void)) __attribute__((weak));
#if defined(__has_feature)
#  if __has_feature(address_sanitizer)
extern "C" __attribute__((used)) const char* __asan_default_options() { return "exitcode=77:detect_leaks=0:abort_on_error=0:allocator_may_return_null=1"; }
#  endif
#endif
#if defined(__SANITIZE_ADDRESS__)
extern "C" __attribute__((used)) const char* __asan_default_options() { return "exitcode=77:detect_leaks=0:abort_on_error=0"; }
#endif
extern "C" __attribute__((used)) const char* __ubsan_default_options() { return "halt_on_error=1:exitcode=78:print_stacktrace=1"; }

using namespace vf;

static std::vector<std::string> split(const std::string& s, char c) { std::vector<std::string> v; std::stringstream ss(s); std::string t; while (std::getline(ss, t, c)) if (!t.empty()) v.push_back(t); return v; }

static std::string arg(int argc, char** argv, const char* name, const char* def = "") {
	for (int i = 1; i + 1 < argc; ++i) if (!std::strcmp(argv[i], name)) return argv[i + 1];
	return def;
}

static js::Value violationJson(const Violation& v) {
	js::Value j = js::Value::object();
	j.set("oracle", v.oracle); j.set("detail", v.detail); j.set("tag", v.tag); j.set("op", v.opIndex); j.set("node", v.node);
	return j;
}

static int cmdReplay(const std::string& path) {
	std::string text; js::Value v; RunPlan p;
	if (!js::readFile(path, text) || !js::parse(text, v) || !fromJson(v.has("plan") ? v.at("plan") : v, p)) { std::fprintf(stderr, "cannot read replay %s\n", path.c_str()); return 2; }
	RunResult r = execute(p, nullptr);
	std::printf("REPLAY hash=%llu ops=%d violations=%zu tainted=%d\n", (unsigned long long) r.hash, r.opsExecuted, r.violations.size(), int(r.tainted));
	for (auto& x : r.violations) std::printf("VIOLATED oracle=%s tag=%s op=%d :: %s\n", x.oracle.c_str(), x.tag.empty() ? "-" : x.tag.c_str(), x.opIndex, x.detail.c_str());
	std::fflush(stdout);
	return r.violations.empty() ? 0 : 1;
}

int main(int argc, char** argv) {
	if (argc < 2) { std::fprintf(stderr, "usage: sim list|run|replay|gen ...\n"); return 2; }
	const std::string cmd = argv[1];
	if (cmd == "list") {
		for (auto& f : factories()) std::printf("%s/%s caps=%u states=%d\n", f.shape, f.config, f.caps, f.desc->n);
		return 0;
	}
	if (cmd == "replay") {
		std::signal(SIGPROF, +[](int) { static const char msg[] = "HANG: the replayed run did not finish (loop inside the library)\n"; ssize_t r = write(1, msg, sizeof msg - 1); (void) r; _exit(79); });
		{ struct itimerval tv; tv.it_interval.tv_sec = 0; tv.it_interval.tv_usec = 0; tv.it_value.tv_sec = 120; tv.it_value.tv_usec = 0; setitimer(ITIMER_PROF, &tv, nullptr); }
		return argc >= 3 ? cmdReplay(argv[2]) : 2;
	}

	const std::string lens = arg(argc, argv, "--lens", "ALL");
	const uint64_t seed = std::strtoull(arg(argc, argv, "--seed", "1").c_str(), nullptr, 10);
	std::set<std::string> avoid; for (auto& a : split(arg(argc, argv, "--avoid"), ',')) avoid.insert(a);
	js::Value opt = js::Value::object();
	{ const std::string o = arg(argc, argv, "--opt"); if (!o.empty()) js::parse(o, opt); }

	if (cmd == "gen") {
		auto sc = split(arg(argc, argv, "--combo"), '/');
		if (sc.size() != 2) return 2;
		RunPlan p = generate(seed, lens, sc[0], sc[1], avoid, opt);
		std::printf("%s\n", toJson(p).dump(1).c_str());
		return 0;
	}
	if (cmd != "run") return 2;

	const long count = std::atol(arg(argc, argv, "--count", "100").c_str());
	const long start = std::atol(arg(argc, argv, "--start", "0").c_str());
	const long stride = std::max(1L, std::atol(arg(argc, argv, "--stride", "1").c_str()));
	const double budget = std::atof(arg(argc, argv, "--budget", "0").c_str());
	const std::string out = arg(argc, argv, "--out");
	const std::string replays = arg(argc, argv, "--replays", "replays");
	const int detEvery = std::atoi(arg(argc, argv, "--det-every", "50").c_str());
	const bool emitHash = arg(argc, argv, "--emit-hash", "0") != "0";
	std::vector<std::pair<std::string, std::string>> combos;
	for (auto& c : split(arg(argc, argv, "--combos"), ',')) { auto sc = split(c, '/'); if (sc.size() == 2 && findFactory(sc[0], sc[1])) combos.emplace_back(sc[0], sc[1]); }
	if (combos.empty()) for (auto& f : factories()) combos.emplace_back(f.shape, f.config);

	static Coverage cov;
	static js::Value found = js::Value::array();
	const auto t0 = std::chrono::steady_clock::now();
	static long done = 0, nondet = 0, tainted = 0;
	// a sanitizer report ends the process: leave what was judged so far behind, the driver restarts the worker after the run that died
	static std::string s_out, s_lens; static uint64_t s_seed; s_out = out; s_lens = lens; s_seed = seed;
	if (__sanitizer_set_death_callback) __sanitizer_set_death_callback(+[] {
		static bool once = false; if (once) return; once = true;
		js::Value sum = js::Value::object();
		sum.set("lens", s_lens); sum.set("seed", (unsigned long long) s_seed); sum.set("runs", done); sum.set("wall_s", 0.0); sum.set("nondeterministic", nondet); sum.set("tainted_runs", tainted);
		sum.set("coverage", cov.toJson()); sum.set("found", found); sum.set("died", true);
		if (!s_out.empty()) js::writeFile(s_out, sum.dump());
		std::printf("DIED after runs=%ld\n", done); std::fflush(stdout);
	});
	int exitCode = 0;
	std::map<std::string, int> reported;
	const unsigned watchdog = unsigned(std::atoi(arg(argc, argv, "--watchdog", "40").c_str()));
	std::signal(SIGPROF, +[](int) { static const char msg[] = "HANG: the current run did not finish (loop inside the library)\n"; ssize_t r = write(1, msg, sizeof msg - 1); (void) r; _exit(79); });
	for (long k = start; k < count; k += stride) {
		if (budget > 0 && std::chrono::duration<double>(std::chrono::steady_clock::now() - t0).count() > budget) break;
		const auto& combo = combos[size_t(k) % combos.size()];
		const uint64_t runSeed = mix64(mix64(seed, uint64_t(k)), std::hash<std::string>()(combo.first + "/" + combo.second));
		std::printf("START k=%ld seed=%llu combo=%s/%s\n", k, (unsigned long long) runSeed, combo.first.c_str(), combo.second.c_str());
		std::fflush(stdout);
		{ struct itimerval tv; tv.it_interval.tv_sec = 0; tv.it_interval.tv_usec = 0; tv.it_value.tv_sec = long(watchdog); tv.it_value.tv_usec = 0; setitimer(ITIMER_PROF, &tv, nullptr); }
		// (CPU time of this process, not wall-clock: a run takes milliseconds; one that has burnt this much sits in a loop inside the library. A stalled or suspended machine does not trip it.)
		RunPlan p = generate(runSeed, lens, combo.first, combo.second, avoid, opt);
		RunResult r = execute(p, &cov);
		++done;
		if (r.tainted) ++tainted;
		if (emitHash) std::printf("HASH k=%ld seed=%llu hash=%llu\n", k, (unsigned long long) runSeed, (unsigned long long) r.hash);
		if (cov.samples.size() < 3 && p.ops.size() <= 12) { js::Value s = js::Value::object(); s.set("combo", combo.first + "/" + combo.second); s.set("seed", (unsigned long long) runSeed); s.set("ops", toJson(p).at("ops")); cov.samples.push_back(s); }
		const bool checkDet = !r.violations.empty() || (detEvery > 0 && (k / stride) % detEvery == 0);
		if (checkDet) {
			RunResult r2 = execute(p, nullptr);
			if (r2.hash != r.hash || r2.violations.size() != r.violations.size()) {
				++nondet;
				std::printf("NONDETERMINISM k=%ld seed=%llu hash %llu vs %llu\n", k, (unsigned long long) runSeed, (unsigned long long) r.hash, (unsigned long long) r2.hash);
				exitCode = 2;
				continue;
			}
		}
		if (!r.violations.empty()) {
			const Violation& v = r.violations.front();
			const std::string key = v.oracle + "|" + v.tag;
			if (reported[key]++ >= 3) continue;          // enough examples of this class from this worker
			int reruns = 0;
			RunPlan m = minimise(p, v.oracle, &reruns);
			RunResult rm = execute(m, nullptr);
			Violation mv = v;
			for (auto& x : rm.violations) if (x.oracle == v.oracle) { mv = x; break; }
			js::Value file = js::Value::object();
			file.set("property", propertyOf(mv.oracle)); file.set("oracle", mv.oracle); file.set("tag", mv.tag); file.set("detail", mv.detail);
			file.set("hash", (unsigned long long) rm.hash); file.set("original_ops", (long) p.ops.size()); file.set("minimised_ops", (long) m.ops.size()); file.set("reruns", reruns);
			file.set("plan", toJson(m));
			char name[256];
			std::snprintf(name, sizeof name, "%s/%s-%llu.json", replays.c_str(), propertyOf(mv.oracle).c_str(), (unsigned long long) runSeed);
			js::writeFile(name, file.dump(1));
			std::printf("FOUND oracle=%s tag=%s replay=%s ops=%zu->%zu reruns=%d :: %s\n", mv.oracle.c_str(), mv.tag.empty() ? "-" : mv.tag.c_str(), name, p.ops.size(), m.ops.size(), reruns, mv.detail.c_str());
			std::fflush(stdout);
			js::Value f = violationJson(mv); f.set("replay", name); f.set("seed", (unsigned long long) runSeed); f.set("hash", (unsigned long long) rm.hash);
			found.push(f);
		}
	}
	{ struct itimerval tv; tv.it_interval.tv_sec = 0; tv.it_interval.tv_usec = 0; tv.it_value.tv_sec = 0; tv.it_value.tv_usec = 0; setitimer(ITIMER_PROF, &tv, nullptr); }
	const double wall = std::chrono::duration<double>(std::chrono::steady_clock::now() - t0).count();
	js::Value sum = js::Value::object();
	sum.set("lens", lens); sum.set("seed", (unsigned long long) seed); sum.set("runs", done); sum.set("wall_s", wall); sum.set("nondeterministic", nondet); sum.set("tainted_runs", tainted);
	sum.set("coverage", cov.toJson()); sum.set("found", found);
	if (!out.empty()) js::writeFile(out, sum.dump());
	std::printf("DONE runs=%ld wall=%.2f found=%zu nondet=%ld tainted=%ld\n", done, wall, found.size(), nondet, tainted);
	return exitCode;
}
