// model.hpp -- reference-model oracles (C02, C04, C05, C06, C09 content, C12, C13 guard-pending).
#pragma once
#include "engine.hpp"
namespace vf {
void modelAfterOp(World& w, int i, const Op& op, const Obs& before);
}
