// One translation unit per (shape, configuration). Everything is selected by -D flags (see bin/vcheck).
#include VF_SHAPE_HEADER
#include "node.hpp"
