// vf.hpp -- interfaces shared by the (non-template) simulation engine and the per-shape node TUs.
// Nothing in here depends on HFSM2 types: nodes are type-erased behind INode / ICtl.
#pragma once
#include <cstdint>
#include <cstddef>
#include <cstring>
#include <string>
#include <vector>
#include <memory>
#include <csetjmp>

namespace vf {

// numbering identical to hfsm2::Method / hfsm2::TransitionType (static_asserted in node.hpp)
enum Method : uint8_t {
	M_NONE, M_SELECT, M_RANK, M_UTILITY, M_ENTRY_GUARD, M_ENTER, M_REENTER, M_PRE_UPDATE, M_UPDATE,
	M_POST_UPDATE, M_PRE_REACT, M_REACT, M_QUERY, M_POST_REACT, M_EXIT_GUARD, M_EXIT,
	M_PLAN_SUCCEEDED, M_PLAN_FAILED, M_COUNT
};
const char* methodName(int m);

enum Kind : uint8_t { K_CHANGE, K_RESTART, K_RESUME, K_SELECT, K_UTILIZE, K_RANDOMIZE, K_SCHEDULE, K_COUNT };
const char* kindName(int k);

// ---- structure descriptor (from gen/shapes.py, independent DFS) -----------------------------

struct StateDesc {
	int id, parent, prong;
	int kind;       // 0 leaf, 1 composite-style region head, 2 orthogonal region head
	int strategy;   // 0 Composite 1 Resumable 2 Selectable 3 Utilitarian 4 Random 5 Orthogonal
	int headless;
	int width;
	int region;     // region id or -1
	int size;       // number of states in the subtree
	int injected;
};

struct Shape {
	std::string name, dsl;
	int n = 0;                          // states
	int nRegions = 0;
	std::vector<StateDesc> st;
	std::vector<std::vector<int>> kids; // children state ids by prong
	std::vector<int> regionHead;        // region id -> state id
	std::vector<int> compoIndex;        // state id -> index among composite-style regions or -1
	int compoCount = 0;
	bool usesUtility = false, hasOrtho = false;

	void build(const char* name_, const char* dsl_, const StateDesc* tab, int count);
	bool isRegion(int s) const { return st[s].kind != 0; }
	bool isCompo (int s) const { return st[s].kind == 1; }
	bool isOrtho (int s) const { return st[s].kind == 2; }
	int  parent  (int s) const { return st[s].parent; }
	// nearest composite-style ancestor region (state id) and the prong of the path child in it
	int  compoParent(int s, int* prong = nullptr) const;
	int  serialBitsNeeded() const;                                          // size of the longest image the save format can produce for this structure
	bool inSubtree(int s, int root) const { return s >= root && s < root + st[root].size; }
};

// ---- views of library values -----------------------------------------------------------------

struct Tr {             // a transition request as the library exposes it
	int origin = -1, dest = -1;
	int kind = K_COUNT;
	int method = M_NONE;
	bool hasPayload = false;
	int64_t payload = 0;
	bool payloadIntact = true;   // over-aligned payload: guard words intact and pointer aligned
	bool operator==(const Tr& o) const {
		return origin == o.origin && dest == o.dest && kind == o.kind && hasPayload == o.hasPayload &&
		       (!hasPayload || payload == o.payload);
	}
	bool operator!=(const Tr& o) const { return !(*this == o); }
};

struct TaskV {
	int origin = -1, dest = -1, kind = K_COUNT;
	bool hasPayload = false;
	int64_t payload = 0;
	bool operator==(const TaskV& o) const {
		return origin == o.origin && dest == o.dest && kind == o.kind && hasPayload == o.hasPayload &&
		       (!hasPayload || payload == o.payload);
	}
};

// ---- capabilities of a built configuration ----------------------------------------------------

enum Cap : uint32_t {
	CAP_PLANS = 1u << 0, CAP_SERIAL = 1u << 1, CAP_HISTORY = 1u << 2, CAP_REPORT = 1u << 3,
	CAP_UTILITY = 1u << 4, CAP_LOG = 1u << 5, CAP_VERBOSE = 1u << 6, CAP_MANUAL = 1u << 7,
	CAP_BOTTOMUP = 1u << 8, CAP_PAYLOAD = 1u << 9, CAP_BIGPAYLOAD = 1u << 10, CAP_BUILTIN_RNG = 1u << 11,
	CAP_DEVHEADERS = 1u << 12, CAP_PEER = 1u << 13,
};

// ---- control adaptor: what a callback can do, type-erased --------------------------------------

enum CtlCap : uint32_t {
	CC_REQUEST = 1u << 0,   // FullControl and derived: changeTo & co, succeed/fail
	CC_PLAN    = 1u << 1,   // PlanControl and derived: plan() edit
	CC_GUARD   = 1u << 2,   // GuardControl: cancel, pending*, isPending*
	CC_EVENT   = 1u << 3,   // EventControl: consumeEvent
	CC_QUERY   = 1u << 4,   // ConstControl: consumeQuery
	CC_CURRENT = 1u << 5,   // PlanControl and derived: currentTransitions()
};

struct ICtl {
	virtual ~ICtl() {}
	virtual uint32_t caps() const = 0;
	virtual int  stateId() const = 0;
	virtual bool isActive(int s) const = 0;
	virtual bool isResumable(int s) const = 0;
	virtual int  activeSubState(int s) const = 0;         // -1 when invalid
	virtual void requests(std::vector<Tr>& out) const = 0;
	virtual void request(int kind, int dest, const int64_t* payload) = 0;
	virtual void succeed(int s) = 0;                        // s < 0: self
	virtual void fail(int s) = 0;
	virtual bool planAppend(int region, int kind, int origin, int dest, const int64_t* payload) = 0;
	virtual void planClear(int region) = 0;
	virtual bool planRemoveAt(int region, int index) = 0;  // remove-while-iterating
	virtual void planRead(int region, std::vector<TaskV>& out) const = 0;
	virtual void cancel() = 0;
	virtual void consume() = 0;
	virtual bool isPendingEnter(int s) const = 0;
	virtual bool isPendingExit(int s) const = 0;
	virtual bool isPendingChange(int s) const = 0;
	virtual void pending(std::vector<Tr>& out) const = 0;
	virtual void current(std::vector<Tr>& out) const = 0;
	virtual void previous(std::vector<Tr>& out) const = 0;
	virtual bool lastTransition(Tr& out) const = 0;
	virtual bool lastTransitionTo(int s, Tr& out) const = 0;
	virtual void defaultPlanResult(bool succeeded) = 0;    // FSM::State::planSucceeded / planFailed
};

// ---- what the harness record of a node receives from callbacks, logger and rng ------------------

struct IHarness {
	virtual ~IHarness() {}
	virtual void  onCallback(int state, int method, int injected, const void* self, ICtl& ctl) = 0;
	virtual int   onSelect  (int state, const void* self, ICtl& ctl) = 0;
	virtual int   onRank    (int state, const void* self, ICtl& ctl) = 0;
	virtual float onUtility (int state, const void* self, ICtl& ctl) = 0;
	virtual float nextRandom() = 0;
	// logger
	virtual void logMethod(int state, int method) = 0;
	virtual void logTransition(int origin, int kind, int dest) = 0;
	virtual void logTaskStatus(int region, int origin, int ok) = 0;
	virtual void logPlanStatus(int region, int ok) = 0;
	virtual void logCancelled(int origin) = 0;
	virtual void logSelect(int head, int prong) = 0;
	virtual void logUtility(int head, int prong, float u) = 0;
	virtual void logRandom(int head, int prong, float r) = 0;
};

struct NodeCtx { IHarness* h = nullptr; bool typed = false; };   // the machine's context (by value); typed: use the templated API variants (changeTo<State>() ...) instead of the id-based ones

// ---- internal state visible through the probe (plans / pool) -----------------------------------

struct PlanProbe {
	int capacity = 0, count = 0, last = 0, vacantHead = 0, vacantTail = 0;
	std::vector<int> linkPrev, linkNext;     // per slot
	std::vector<int> boundFirst, boundLast;  // per region
	std::vector<int> itemPrev, itemNext;     // raw prev/next unions of pool items (vacant list)
	std::vector<uint8_t> success, failure;   // per state marks
	std::vector<uint8_t> planExists;         // per region
	std::vector<uint8_t> headStatus, subStatus; // per region: result | outer<<2
};

struct RegistryProbe {
	std::vector<int> active, resumable, requested;  // per composite index; -1 invalid
	std::vector<uint8_t> remain;
	bool orthoRequestedAny = false;
	int  requestCount = 0, requestCapacity = 0;
};

// ---- a node: one real FSM::Instance behind a type-erased interface --------------------------------

struct INode {
	virtual ~INode() {}
	virtual const Shape& shape() const = 0;
	virtual uint32_t caps() const = 0;
	virtual const char* config() const = 0;
	virtual size_t instanceSize() const = 0;
	virtual size_t instanceAlign() const = 0;
	virtual int substitutionLimit() const = 0;
	virtual int taskCapacity() const = 0;
	virtual int serialBytes() const = 0;
	virtual void useTyped(bool on) = 0;                                      // templated (changeTo<State>()) or id-based (changeTo(id)) flavour of every call that has both
	virtual int serialBits() const = 0;                                     // declared bit capacity of the serial buffer

	// storage & lifetime: the engine owns the arena
	virtual bool alive() const = 0;
	virtual void construct(void* arena, IHarness* h, bool withLogger) = 0;  // placement new (automatic activation enters here)
	virtual void copyConstruct(void* arena, INode& from, IHarness* h) = 0;  // copy ctor into arena, context re-pointed
	virtual void destroy() = 0;                                            // destructor (automatic: finalExit)
	virtual void abandon() = 0;                                            // crash: storage dropped without destructor
	virtual void setHarness(IHarness* h) = 0;
	virtual const void* address() const = 0;
	virtual const void* stateAddress(int s) const = 0;                     // &access<St<s>>() or nullptr (headless)

	// API
	virtual bool activated() const = 0;
	virtual void enter() = 0;
	virtual void exit() = 0;
	virtual void update() = 0;
	virtual void react(int ev) = 0;
	virtual void query(int q) = 0;
	virtual void request(int kind, int dest, const int64_t* payload) = 0;
	virtual void immediate(int kind, int dest, const int64_t* payload) = 0;
	virtual void succeed(int s) = 0;
	virtual void fail(int s) = 0;
	virtual bool planAppend(int region, int kind, int origin, int dest, const int64_t* payload) = 0;
	virtual void planClear(int region) = 0;
	virtual bool planRemoveAt(int region, int index) = 0;
	virtual void planRead(int region, std::vector<TaskV>& out) const = 0;
	virtual void reset() = 0;
	virtual void attachLogger(bool on) = 0;
	virtual void setSaveFill(uint8_t v) = 0;                      // what the serial buffer holds before save() (a reused buffer)
	virtual void save(std::vector<uint8_t>& out) const = 0;
	virtual void load(const std::vector<uint8_t>& in) = 0;
	virtual void previous(std::vector<Tr>& out) const = 0;
	virtual bool replay(const std::vector<Tr>& trs) = 0;       // replayTransitions
	virtual bool replayEnter(const std::vector<Tr>& trs) = 0;
	virtual int  lastTransitionTo(int s, Tr& out) const = 0;   // -1 null, else index into previous
	// observation
	virtual bool isActive(int s) const = 0;
	virtual bool isResumable(int s) const = 0;
	virtual int  activeSubState(int s) const = 0;
	virtual bool isPendingEnter(int s) const = 0;
	virtual bool isPendingExit(int s) const = 0;
	virtual bool isPendingChange(int s) const = 0;
	virtual void requests(std::vector<Tr>& out) const = 0;
	virtual bool structureActive(int s) const = 0;
	virtual int  activity(int s) const = 0;
	virtual void probePlans(PlanProbe& out) const = 0;
	virtual void probeRegistry(RegistryProbe& out) const = 0;
};

struct NodeFactory {
	const char* shape;
	const char* config;
	uint32_t caps;
	const Shape* desc;
	INode* (*make)();
};
void registerFactory(const NodeFactory& f);
const std::vector<NodeFactory>& factories();

// assertion / break handler state (per thread: workers are single-threaded processes, but keep it tidy)
struct AssertHit { std::string expr, file; int line = 0; };
extern thread_local std::vector<AssertHit>* g_assertSink;
extern thread_local bool (*g_assertPolicy)(const char* expr);   // true: end the run here (jump); false: record and let the library carry on
extern thread_local std::jmp_buf* g_assertJump;   // armed during a run: the first assertion hit ends the run (the library would continue into undefined behaviour)
extern thread_local long g_libAllocs;     // allocations observed while inside a library call
extern thread_local int  g_inLibrary;     // >0 while executing library code on behalf of an API call

struct LibScope {   // marks "inside a library call" for the allocation counters
	LibScope()  { ++g_inLibrary; }
	~LibScope() { --g_inLibrary; }
};
struct HarnessScope {   // user callback / harness bookkeeping: allocations here are ours
	int saved;
	HarnessScope() : saved(g_inLibrary) { g_inLibrary = 0; }
	~HarnessScope() { g_inLibrary = saved; }
};

} // namespace vf
