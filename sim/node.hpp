// node.hpp -- one (shape, configuration) pair: real HFSM2 instance behind vf::INode.
// Included once per node TU, after the generated shape header. Everything lives in namespace VF_NS so that
// every TU's state types -- and therefore every HFSM2 instantiation -- are distinct.
//
// Configuration macros (all 0/1 unless noted): VF_PLANS VF_SERIAL VF_HISTORY VF_REPORT VF_UTILITY
// VF_LOG (0 none, 1 interface, 2 verbose) VF_MANUAL VF_BOTTOMUP VF_PAYLOAD (0 void, 1 int, 2 over-aligned)
// VF_SUBST (0 default) VF_TASKCAP (0 default) VF_BUILTIN_RNG VF_DEV VF_CFG_NAME VF_NS

#ifndef HFSM2_VERIF
	#define HFSM2_VERIF
#endif
#define HFSM2_ENABLE_ASSERT
#if VF_PLANS
	#define HFSM2_ENABLE_PLANS
#endif
#if VF_SERIAL
	#define HFSM2_ENABLE_SERIALIZATION
#endif
#if VF_HISTORY
	#define HFSM2_ENABLE_TRANSITION_HISTORY
#endif
#if VF_REPORT
	#define HFSM2_ENABLE_STRUCTURE_REPORT
#endif
#if VF_UTILITY
	#define HFSM2_ENABLE_UTILITY_THEORY
#endif
#if VF_LOG == 2
	#define HFSM2_ENABLE_VERBOSE_DEBUG_LOG
#elif VF_LOG == 1
	#define HFSM2_ENABLE_LOG_INTERFACE
#endif

#if VF_DEV
	#include <hfsm2/machine_dev.hpp>
#else
	#include <hfsm2/machine.hpp>
#endif

#include <type_traits>
#include <new>
#include "vf.hpp"
#include "probe.hpp"

static_assert(int(hfsm2::Method::SELECT) == vf::M_SELECT && int(hfsm2::Method::EXIT) == vf::M_EXIT &&
              int(hfsm2::Method::PLAN_FAILED) == vf::M_PLAN_FAILED && int(hfsm2::Method::QUERY) == vf::M_QUERY, "Method numbering");
static_assert(int(hfsm2::TransitionType::CHANGE) == vf::K_CHANGE && int(hfsm2::TransitionType::SCHEDULE) == vf::K_SCHEDULE &&
              int(hfsm2::TransitionType::RANDOMIZE) == vf::K_RANDOMIZE, "TransitionType numbering");

namespace VF_NS {

// ---- payload ----------------------------------------------------------------------------------

struct alignas(32) BigPayload {
	int64_t v;
	uint64_t g0, g1, g2;
	BigPayload() : v(0), g0(mix(0, 1)), g1(mix(0, 2)), g2(mix(0, 3)) {}
	explicit BigPayload(int64_t x) : v(x), g0(mix(x, 1)), g1(mix(x, 2)), g2(mix(x, 3)) {}
	static uint64_t mix(int64_t x, uint64_t k) { uint64_t z = uint64_t(x) * 0x9E3779B97F4A7C15ull + k * 0xBF58476D1CE4E5B9ull; return z ^ (z >> 29); }
	bool intact() const { return g0 == mix(v, 1) && g1 == mix(v, 2) && g2 == mix(v, 3) && (reinterpret_cast<uintptr_t>(this) % 32) == 0; }
};

#if VF_PAYLOAD == 2
using Payload = BigPayload;
inline Payload toPayload(int64_t v) { return BigPayload{v}; }
inline int64_t fromPayload(const Payload& p, bool& ok) { ok = p.intact(); return p.v; }
#elif VF_PAYLOAD == 1
using Payload = int;
inline Payload toPayload(int64_t v) { return int(v); }
inline int64_t fromPayload(const Payload& p, bool& ok) { ok = true; return p; }
#else
using Payload = void;
#endif

// ---- configuration -------------------------------------------------------------------------------

struct ScriptRng {
	vf::IHarness** cur;
	float next() noexcept { vf::HarnessScope hs; return (*cur)->nextRandom(); }
};

// Every option is an alias that must carry all the others along: the chain is built in one of two orders (VF_CHAIN), and the rank / utility types are
// named explicitly (with the library's defaults, so the machine type is the same) to put those aliases into the chain as well.
template <typename C, int Which, bool On> struct Opt { using type = C; };
template <typename C> struct Opt<C, 0, true> { using type = typename C::template ContextT<vf::NodeCtx>; };
template <typename C> struct Opt<C, 1, true> { using type = typename C::ManualActivation; };
template <typename C> struct Opt<C, 2, true> { using type = typename C::BottomUpReactions; };
#if VF_UTILITY
template <typename C> struct Opt<C, 3, true> { using type = typename C::template RankT<int8_t>; };
template <typename C> struct Opt<C, 4, true> { using type = typename C::template UtilityT<float>; };
template <typename C> struct Opt<C, 5, true> { using type = typename C::template RandomT<ScriptRng>; };
#endif
#if VF_SUBST
template <typename C> struct Opt<C, 6, true> { using type = typename C::template SubstitutionLimitN<VF_SUBST>; };
#endif
#if VF_PLANS && VF_TASKCAP
template <typename C> struct Opt<C, 7, true> { using type = typename C::template TaskCapacityN<VF_TASKCAP>; };
#endif
#if VF_PAYLOAD
template <typename C> struct Opt<C, 8, true> { using type = typename C::template PayloadT<Payload>; };
#endif
template <typename C, int W> using Ap = typename Opt<C, W,
	W == 0 ? true : W == 1 ? (VF_MANUAL != 0) : W == 2 ? (VF_BOTTOMUP != 0) : (W == 3 || W == 4) ? (VF_UTILITY != 0) : W == 5 ? (VF_UTILITY != 0 && VF_BUILTIN_RNG == 0)
	: W == 6 ? (VF_SUBST != 0) : W == 7 ? (VF_PLANS != 0 && VF_TASKCAP != 0) : (VF_PAYLOAD != 0)>::type;
#ifndef VF_CHAIN
#define VF_CHAIN 0
#endif
#if VF_CHAIN == 0
using Cfg = Ap<Ap<Ap<Ap<Ap<Ap<Ap<Ap<Ap<hfsm2::Config, 0>, 1>, 2>, 3>, 4>, 5>, 6>, 7>, 8>;
#else
using Cfg = Ap<Ap<Ap<Ap<Ap<Ap<Ap<Ap<Ap<hfsm2::Config, 8>, 7>, 6>, 5>, 4>, 3>, 2>, 1>, 0>;
#endif

using M = hfsm2::MachineT<Cfg>;

template <int N> struct St;
using FSM = VF_FSM_TYPE(M);

// the templated flavour of the API needs the state's type: dispatch from a run-time id (headless states have none: the caller falls back to the id)
template <typename T> struct TypeTag { using type = T; };
template <typename F>
inline bool withStateType(int s, F&& f) {
	switch (s) {
#define VF_TYPE_CASE(N) case N: f(TypeTag<St<N>>{}); return true;
	VF_FOR_EACH_STATE(VF_TYPE_CASE)
#undef VF_TYPE_CASE
	default: return false;
	}
}
using Instance = FSM::Instance;

using ConstControl = FSM::ConstControl;
using Control      = FSM::Control;
using PlanControl  = FSM::State::PlanControl;
using FullControl  = FSM::FullControl;
using GuardControl = FSM::GuardControl;
using EventControl = FSM::EventControl;

struct Ev0 { int tag = 0; };
struct Ev1 { int tag = 1; };
struct Qr0 { int tag = 0; };

// ---- conversions -----------------------------------------------------------------------------------

template <typename TTransition>
inline vf::Tr toTr(const TTransition& t) {
	vf::Tr r;
	r.origin = t.origin == hfsm2::INVALID_STATE_ID ? -1 : int(t.origin);
	r.dest   = t.destination == hfsm2::INVALID_STATE_ID ? -1 : int(t.destination);
	r.kind   = int(t.type);
	r.method = int(t.method);
#if VF_PAYLOAD
	if (const Payload* p = t.payload()) {
		r.hasPayload = true;
		bool ok = true;
		r.payload = fromPayload(*p, ok);
		r.payloadIntact = ok;
	}
#endif
	return r;
}

using Transition = M::Transition;

inline Transition fromTr(const vf::Tr& t) {
	const hfsm2::StateID o = t.origin < 0 ? hfsm2::INVALID_STATE_ID : hfsm2::StateID(t.origin);
	const hfsm2::StateID d = t.dest   < 0 ? hfsm2::INVALID_STATE_ID : hfsm2::StateID(t.dest);
#if VF_PAYLOAD
	if (t.hasPayload)
		return Transition{o, d, hfsm2::TransitionType(t.kind), toPayload(t.payload)};
#endif
	return Transition{o, d, hfsm2::TransitionType(t.kind)};
}

template <typename TArray>
inline void toTrs(const TArray& a, std::vector<vf::Tr>& out) {
	out.clear();
	for (unsigned i = 0; i < unsigned(a.count()); ++i)
		out.push_back(toTr(a[i]));
}

template <typename TTask>
inline vf::TaskV toTask(const TTask& t) {
	vf::TaskV r;
	r.origin = int(t.origin); r.dest = int(t.destination); r.kind = int(t.type);
#if VF_PAYLOAD
	if (const Payload* p = t.payload()) { bool ok; r.hasPayload = true; r.payload = fromPayload(*p, ok); }
#endif
	return r;
}

// ---- control adaptor -----------------------------------------------------------------------------------

template <typename C>   // C may be const-qualified
struct CtlAdaptor final : vf::ICtl {
	using CC = typename std::remove_const<C>::type;
	static constexpr bool IS_CONSTCTL = std::is_same<CC, ConstControl>::value;
	static constexpr bool IS_PLAN  = std::is_base_of<PlanControl, CC>::value && !std::is_const<C>::value;
	static constexpr bool IS_FULL  = std::is_base_of<FullControl, CC>::value && !std::is_const<C>::value;
	static constexpr bool IS_GUARD = std::is_same<CC, GuardControl>::value;
	static constexpr bool IS_EVENT = std::is_same<CC, EventControl>::value;

	C& c;
	void* self;
	int state;
	explicit CtlAdaptor(C& c_, void* self_, int state_) : c(c_), self(self_), state(state_) {}

	uint32_t caps() const override {
		return (IS_FULL ? vf::CC_REQUEST : 0) | (IS_PLAN ? (vf::CC_PLAN | vf::CC_CURRENT) : 0) | (IS_GUARD ? vf::CC_GUARD : 0)
		     | (IS_EVENT ? vf::CC_EVENT : 0) | (IS_CONSTCTL ? vf::CC_QUERY : 0);
	}
	int  stateId() const override { return c.stateId() == hfsm2::INVALID_STATE_ID ? -1 : int(c.stateId()); }
	bool typed() const { return c.context().typed; }
	// plan(regionId) or plan<RegionHead>()
	auto planOf(int region) const {
		if (typed()) switch (region) {
#define VF_PLAN_CASE(R, N) case R: return c.template plan<St<N>>();
		VF_FOR_EACH_HEADED_REGION(VF_PLAN_CASE)
#undef VF_PLAN_CASE
		default: break;
		}
		return c.plan(hfsm2::RegionID(region));
	}
	bool isActive(int s) const override {
		bool r = false;
		if (typed() && withStateType(s, [&](auto t) { r = c.template isActive<typename decltype(t)::type>(); })) return r;
		return c.isActive(hfsm2::StateID(s));
	}
	bool isResumable(int s) const override {
		bool r = false;
		if (typed() && withStateType(s, [&](auto t) { r = (s & 1) ? c.template isResumable<typename decltype(t)::type>() : c.template isScheduled<typename decltype(t)::type>(); })) return r;
		return c.isResumable(hfsm2::StateID(s));
	}
	int  activeSubState(int s) const override { const hfsm2::Prong p = c.activeSubState(hfsm2::StateID(s)); return p == hfsm2::INVALID_PRONG ? -1 : int(p); }
	void requests(std::vector<vf::Tr>& out) const override { toTrs(c.requests(), out); }

	void request(int kind, int dest, const int64_t* payload) override {
		if constexpr (IS_FULL) {
			const hfsm2::StateID d = hfsm2::StateID(dest);
			if (typed() && withStateType(dest, [&](auto t) {
				using T = typename decltype(t)::type;
#if VF_PAYLOAD
				if (payload) {
					const Payload p = toPayload(*payload);
					switch (kind) {
					case vf::K_CHANGE:    c.template changeWith   <T>(p); return;
					case vf::K_RESTART:   c.template restartWith  <T>(p); return;
					case vf::K_RESUME:    c.template resumeWith   <T>(p); return;
					case vf::K_SELECT:    c.template selectWith   <T>(p); return;
#if VF_UTILITY
					case vf::K_UTILIZE:   c.template utilizeWith  <T>(p); return;
					case vf::K_RANDOMIZE: c.template randomizeWith<T>(p); return;
#endif
					case vf::K_SCHEDULE:  c.template scheduleWith <T>(p); return;
					default: return;
					}
				}
#endif
				switch (kind) {
				case vf::K_CHANGE:    c.template changeTo <T>(); return;
				case vf::K_RESTART:   c.template restart  <T>(); return;
				case vf::K_RESUME:    c.template resume   <T>(); return;
				case vf::K_SELECT:    c.template select   <T>(); return;
#if VF_UTILITY
				case vf::K_UTILIZE:   c.template utilize  <T>(); return;
				case vf::K_RANDOMIZE: c.template randomize<T>(); return;
#endif
				case vf::K_SCHEDULE:  c.template schedule <T>(); return;
				default: return;
				}
			})) return;
#if VF_PAYLOAD
			if (payload) {
				const Payload p = toPayload(*payload);
				switch (kind) {
				case vf::K_CHANGE:    c.changeWith   (d, p); return;
				case vf::K_RESTART:   c.restartWith  (d, p); return;
				case vf::K_RESUME:    c.resumeWith   (d, p); return;
				case vf::K_SELECT:    c.selectWith   (d, p); return;
#if VF_UTILITY
				case vf::K_UTILIZE:   c.utilizeWith  (d, p); return;
				case vf::K_RANDOMIZE: c.randomizeWith(d, p); return;
#endif
				case vf::K_SCHEDULE:  c.scheduleWith (d, p); return;
				default: return;
				}
			}
#else
			(void) payload;
#endif
			switch (kind) {
			case vf::K_CHANGE:    c.changeTo (d); return;
			case vf::K_RESTART:   c.restart  (d); return;
			case vf::K_RESUME:    c.resume   (d); return;
			case vf::K_SELECT:    c.select   (d); return;
#if VF_UTILITY
			case vf::K_UTILIZE:   c.utilize  (d); return;
			case vf::K_RANDOMIZE: c.randomize(d); return;
#endif
			case vf::K_SCHEDULE:  c.schedule (d); return;
			default: return;
			}
		} else { (void) kind; (void) dest; (void) payload; }
	}
	void succeed(int s) override {
#if VF_PLANS
		if constexpr (IS_FULL) {
			if (s < 0) c.succeed();
			else if (typed() && withStateType(s, [&](auto t) { c.template succeed<typename decltype(t)::type>(); })) {}
			else c.succeed(hfsm2::StateID(s));
		}
#endif
		(void) s;
	}
	void fail(int s) override {
#if VF_PLANS
		if constexpr (IS_FULL) {
			if (s < 0) c.fail();
			else if (typed() && withStateType(s, [&](auto t) { c.template fail<typename decltype(t)::type>(); })) {}
			else c.fail(hfsm2::StateID(s));
		}
#endif
		(void) s;
	}
	bool planAppend(int region, int kind, int origin, int dest, const int64_t* payload) override {
#if VF_PLANS
		if constexpr (IS_PLAN) {
			auto p = planOf(region);
			const hfsm2::StateID o = hfsm2::StateID(origin), d = hfsm2::StateID(dest);
#if VF_PAYLOAD
			if (payload) {
				const Payload v = toPayload(*payload);
				switch (kind) {
				case vf::K_CHANGE:    return p.changeWith   (o, d, v);
				case vf::K_RESTART:   return p.restartWith  (o, d, v);
				case vf::K_RESUME:    return p.resumeWith   (o, d, v);
				case vf::K_SELECT:    return p.selectWith   (o, d, v);
#if VF_UTILITY
				case vf::K_UTILIZE:   return p.utilizeWith  (o, d, v);
				case vf::K_RANDOMIZE: return p.randomizeWith(o, d, v);
#endif
				case vf::K_SCHEDULE:  return p.scheduleWith (o, d, v);
				default: return false;
				}
			}
#endif
			switch (kind) {
			case vf::K_CHANGE:    return p.change   (o, d);
			case vf::K_RESTART:   return p.restart  (o, d);
			case vf::K_RESUME:    return p.resume   (o, d);
			case vf::K_SELECT:    return p.select   (o, d);
#if VF_UTILITY
			case vf::K_UTILIZE:   return p.utilize  (o, d);
			case vf::K_RANDOMIZE: return p.randomize(o, d);
#endif
			case vf::K_SCHEDULE:  return p.schedule (o, d);
			default: return false;
			}
		}
#endif
		(void) region; (void) kind; (void) origin; (void) dest; (void) payload;
		return false;
	}
	void planClear(int region) override {
#if VF_PLANS
		if constexpr (IS_PLAN) { planOf(region).clear(); }
#endif
		(void) region;
	}
	bool planRemoveAt(int region, int index) override {
#if VF_PLANS
		if constexpr (IS_PLAN) {
			auto p = planOf(region);
			int i = 0;
			for (auto it = p.begin(); it && i <= int(FSM::TASK_CAPACITY); ++it, ++i)
				if (i == index) { it.remove(); return true; }
		}
#endif
		(void) region; (void) index;
		return false;
	}
	void planRead(int region, std::vector<vf::TaskV>& out) const override {
		out.clear();
#if VF_PLANS
		if constexpr (IS_PLAN) {
			auto p = planOf(region);
			int guard = 0;
			for (auto it = p.begin(); it; ++it) {
				if (++guard > int(FSM::TASK_CAPACITY)) { vf::TaskV cyc; cyc.origin = -99; out.push_back(cyc); break; }    // more items than the pool holds: the list is cyclic
				out.push_back(toTask(*it));
			}
		}
#endif
		(void) region;
	}
	void cancel() override { if constexpr (IS_GUARD) c.cancelPendingTransitions(); }
	void consume() override {
		if constexpr (IS_EVENT) c.consumeEvent();
		if constexpr (IS_CONSTCTL && !std::is_const<C>::value) c.consumeQuery();
	}
	bool isPendingEnter (int s) const override { if constexpr (IS_GUARD) { bool r = false; if (typed() && withStateType(s, [&](auto t) { r = c.template isPendingEnter <typename decltype(t)::type>(); })) return r; return c.isPendingEnter (hfsm2::StateID(s)); } else { (void) s; return false; } }
	bool isPendingExit  (int s) const override { if constexpr (IS_GUARD) { bool r = false; if (typed() && withStateType(s, [&](auto t) { r = c.template isPendingExit  <typename decltype(t)::type>(); })) return r; return c.isPendingExit  (hfsm2::StateID(s)); } else { (void) s; return false; } }
	bool isPendingChange(int s) const override { if constexpr (IS_GUARD) { bool r = false; if (typed() && withStateType(s, [&](auto t) { r = c.template isPendingChange<typename decltype(t)::type>(); })) return r; return c.isPendingChange(hfsm2::StateID(s)); } else { (void) s; return false; } }
	void pending(std::vector<vf::Tr>& out) const override { out.clear(); if constexpr (IS_GUARD) toTrs(c.pendingTransitions(), out); }
	void current(std::vector<vf::Tr>& out) const override {
		out.clear();
		if constexpr (std::is_base_of<PlanControl, CC>::value) toTrs(c.currentTransitions(), out);
	}
	void previous(std::vector<vf::Tr>& out) const override {
		out.clear();
#if VF_HISTORY
		toTrs(c.previousTransitions(), out);
#endif
	}
	bool lastTransition(vf::Tr& out) const override {
#if VF_HISTORY
		// ConstControlT declares lastTransition()/lastTransitionTo() but the library never defines them
		if constexpr (!IS_CONSTCTL) { if (const auto* t = c.lastTransition()) { out = toTr(*t); return true; } }
#endif
		(void) out; return false;
	}
	bool lastTransitionTo(int s, vf::Tr& out) const override {
#if VF_HISTORY
		if constexpr (!IS_CONSTCTL) { if (const auto* t = c.lastTransitionTo(hfsm2::StateID(s))) { out = toTr(*t); return true; } }
#endif
		(void) s; (void) out; return false;
	}
	void defaultPlanResult(bool succeeded) override {
#if VF_PLANS
		if constexpr (IS_FULL) { if (succeeded) c.succeed(); else c.fail(); }   // what FSM::State::planSucceeded/Failed do
#endif
		(void) succeeded;
	}
};

template <typename C>
inline vf::IHarness* harnessOf(C& c) { return c.context().h; }

template <typename C, typename TSelf>
inline void hcb(int n, int method, int injected, TSelf* self, C& c) {
	vf::HarnessScope hs;
	CtlAdaptor<C> a{c, const_cast<void*>(static_cast<const void*>(self)), n};
	harnessOf(c)->onCallback(n, method, injected, static_cast<const void*>(self), a);
}

// ---- the generic state ------------------------------------------------------------------------------

template <int N>
struct Inj : FSM::State {
	void entryGuard(GuardControl& c)                       { hcb(N, vf::M_ENTRY_GUARD, 1, this, c); }
	void enter     (PlanControl&  c)                       { hcb(N, vf::M_ENTER,       1, this, c); }
	void reenter   (PlanControl&  c)                       { hcb(N, vf::M_REENTER,     1, this, c); }
	void preUpdate (FullControl&  c)                       { hcb(N, vf::M_PRE_UPDATE,  1, this, c); }
	void update    (FullControl&  c)                       { hcb(N, vf::M_UPDATE,      1, this, c); }
	void postUpdate(FullControl&  c)                       { hcb(N, vf::M_POST_UPDATE, 1, this, c); }
	template <typename E> void preReact (const E&, EventControl& c) { hcb(N, vf::M_PRE_REACT,  1, this, c); }
	template <typename E> void react    (const E&, EventControl& c) { hcb(N, vf::M_REACT,      1, this, c); }
	template <typename E> void postReact(const E&, EventControl& c) { hcb(N, vf::M_POST_REACT, 1, this, c); }
	template <typename E> void query    (E&, ConstControl& c) const { hcb(N, vf::M_QUERY,      1, this, c); }
	void exitGuard (GuardControl& c)                       { hcb(N, vf::M_EXIT_GUARD,  1, this, c); }
	void exit      (PlanControl&  c)                       { hcb(N, vf::M_EXIT,        1, this, c); }
};

template <int N, bool INJECTED> struct BaseSel            { using type = FSM::State; };
template <int N>                struct BaseSel<N, true>  { using type = FSM::StateT<Inj<N>>; };

template <int N>
struct St : BaseSel<N, VF_INJECTED(N)>::type {
	using Base = typename BaseSel<N, VF_INJECTED(N)>::type;

	hfsm2::Prong select(const Control& c) {
		vf::HarnessScope hs;
		CtlAdaptor<const Control> a{c, this, N};
		return hfsm2::Prong(harnessOf(c)->onSelect(N, this, a));
	}
#if VF_UTILITY
	typename FSM::State::Rank rank(const Control& c) {
		vf::HarnessScope hs;
		CtlAdaptor<const Control> a{c, this, N};
		return typename FSM::State::Rank(harnessOf(c)->onRank(N, this, a));
	}
	typename FSM::State::Utility utility(const Control& c) {
		vf::HarnessScope hs;
		CtlAdaptor<const Control> a{c, this, N};
		return typename FSM::State::Utility(harnessOf(c)->onUtility(N, this, a));
	}
#endif
	void entryGuard(GuardControl& c)                       { hcb(N, vf::M_ENTRY_GUARD, 0, this, c); }
	void enter     (PlanControl&  c)                       { hcb(N, vf::M_ENTER,       0, this, c); }
	void reenter   (PlanControl&  c)                       { hcb(N, vf::M_REENTER,     0, this, c); }
	void preUpdate (FullControl&  c)                       { hcb(N, vf::M_PRE_UPDATE,  0, this, c); }
	void update    (FullControl&  c)                       { hcb(N, vf::M_UPDATE,      0, this, c); }
	void postUpdate(FullControl&  c)                       { hcb(N, vf::M_POST_UPDATE, 0, this, c); }
	template <typename E> void preReact (const E&, EventControl& c) { hcb(N, vf::M_PRE_REACT,  0, this, c); }
	template <typename E> void react    (const E&, EventControl& c) { hcb(N, vf::M_REACT,      0, this, c); }
	template <typename E> void postReact(const E&, EventControl& c) { hcb(N, vf::M_POST_REACT, 0, this, c); }
	template <typename E> void query    (E&, ConstControl& c) const { hcb(N, vf::M_QUERY,      0, this, c); }
	void exitGuard (GuardControl& c)                       { hcb(N, vf::M_EXIT_GUARD,  0, this, c); }
	void exit      (PlanControl&  c)                       { hcb(N, vf::M_EXIT,        0, this, c); }
#if VF_PLANS
	void planSucceeded(FullControl& c)                     { hcb(N, vf::M_PLAN_SUCCEEDED, 0, this, c); }
	void planFailed   (FullControl& c)                     { hcb(N, vf::M_PLAN_FAILED,    0, this, c); }
#endif
};

VF_STATIC_CHECKS(FSM);

// ---- logger -------------------------------------------------------------------------------------------

#if VF_LOG
struct Logger final : M::LoggerInterface {
	using Context = vf::NodeCtx;
	void recordMethod(const Context& ctx, const hfsm2::StateID origin, const hfsm2::Method method) override {
		vf::HarnessScope hs; ctx.h->logMethod(int(origin), int(method)); }
	void recordTransition(const Context& ctx, const hfsm2::StateID origin, const hfsm2::TransitionType t, const hfsm2::StateID target) override {
		vf::HarnessScope hs; ctx.h->logTransition(origin == hfsm2::INVALID_STATE_ID ? -1 : int(origin), int(t), int(target)); }
#if VF_PLANS
	void recordTaskStatus(const Context& ctx, const hfsm2::StateID region, const hfsm2::StateID origin, const hfsm2::StatusEvent e) override {
		vf::HarnessScope hs; ctx.h->logTaskStatus(region == hfsm2::INVALID_STATE_ID ? -1 : int(region), int(origin), e == hfsm2::StatusEvent::SUCCEEDED); }
	void recordPlanStatus(const Context& ctx, const hfsm2::StateID region, const hfsm2::StatusEvent e) override {
		vf::HarnessScope hs; ctx.h->logPlanStatus(int(region), e == hfsm2::StatusEvent::SUCCEEDED); }
#endif
	void recordCancelledPending(const Context& ctx, const hfsm2::StateID origin) override {
		vf::HarnessScope hs; ctx.h->logCancelled(int(origin)); }
	void recordSelectResolution(const Context& ctx, const hfsm2::StateID head, const hfsm2::Prong prong) override {
		vf::HarnessScope hs; ctx.h->logSelect(int(head), prong == hfsm2::INVALID_PRONG ? -1 : int(prong)); }
#if VF_UTILITY
	void recordUtilityResolution(const Context& ctx, const hfsm2::StateID head, const hfsm2::Prong prong, const float u) override {
		vf::HarnessScope hs; ctx.h->logUtility(int(head), prong == hfsm2::INVALID_PRONG ? -1 : int(prong), u); }
	void recordRandomResolution(const Context& ctx, const hfsm2::StateID head, const hfsm2::Prong prong, const float u) override {
		vf::HarnessScope hs; ctx.h->logRandom(int(head), prong == hfsm2::INVALID_PRONG ? -1 : int(prong), u); }
#endif
};
#endif

// ---- address of each state object: access<St<N>>() ---------------------------------------------------

template <int N> inline const void* stateAddr(Instance& i) { return static_cast<const void*>(&i.template access<St<N>>()); }

// ---- node ------------------------------------------------------------------------------------------------

static const vf::StateDesc kStateTable[] = { VF_STATE_TABLE };

inline const vf::Shape& theShape() {
	static vf::Shape s = [] { vf::Shape x; x.build(VF_SHAPE_NAME, VF_SHAPE_DSL, kStateTable, int(sizeof(kStateTable) / sizeof(kStateTable[0]))); return x; }();
	return s;
}

struct Node final : vf::INode {
	Instance* inst = nullptr;
	vf::IHarness* harness = nullptr;     // what ScriptRng consults
	vf::IHarness** rngSlot = nullptr;    // shared with copies (the library shares the RNG object by reference)
	std::shared_ptr<vf::IHarness*> rngCell;
	std::shared_ptr<ScriptRng> rngObj;
#if VF_LOG
	Logger logger;
#endif

	const vf::Shape& shape() const override { return theShape(); }
	uint32_t caps() const override {
		return (VF_PLANS ? vf::CAP_PLANS : 0) | (VF_SERIAL ? vf::CAP_SERIAL : 0) | (VF_HISTORY ? vf::CAP_HISTORY : 0)
		     | (VF_REPORT ? vf::CAP_REPORT : 0) | (VF_UTILITY ? vf::CAP_UTILITY : 0) | (VF_LOG ? vf::CAP_LOG : 0)
		     | (VF_LOG == 2 ? vf::CAP_VERBOSE : 0) | (VF_MANUAL ? vf::CAP_MANUAL : 0) | (VF_BOTTOMUP ? vf::CAP_BOTTOMUP : 0)
		     | (VF_PAYLOAD ? vf::CAP_PAYLOAD : 0) | (VF_PAYLOAD == 2 ? vf::CAP_BIGPAYLOAD : 0)
		     | (VF_BUILTIN_RNG ? vf::CAP_BUILTIN_RNG : 0) | (VF_DEV ? vf::CAP_DEVHEADERS : 0);
	}
	const char* config() const override { return VF_CFG_NAME; }
	size_t instanceSize()  const override { return sizeof(Instance); }
	size_t instanceAlign() const override { return alignof(Instance); }
	int substitutionLimit() const override { return int(FSM::SUBSTITUTION_LIMIT); }
	int taskCapacity() const override {
#if VF_PLANS
		return int(FSM::TASK_CAPACITY);
#else
		return 0;
#endif
	}
	int serialBytes() const override {
#if VF_SERIAL
		return int(sizeof(typename Instance::SerialBuffer));
#else
		return 0;
#endif
	}
	int serialBits() const override {
#if VF_SERIAL
		return int(Instance::SerialBuffer::BIT_CAPACITY);
#else
		return 0;
#endif
	}

	bool alive() const override { return inst != nullptr; }

	void construct(void* arena, vf::IHarness* h, bool withLogger) override {
		harness = h;
		if (!rngCell) { rngCell = std::make_shared<vf::IHarness*>(h); rngObj = std::make_shared<ScriptRng>(ScriptRng{rngCell.get()}); }
		*rngCell = h;
		vf::NodeCtx ctx; ctx.h = h; ctx.typed = typed;
		(void) withLogger;
		vf::LibScope ls;
#if VF_UTILITY && !VF_BUILTIN_RNG
	#if VF_LOG
		inst = new (arena) Instance{ctx, *rngObj, withLogger ? &logger : nullptr};
	#else
		inst = new (arena) Instance{ctx, *rngObj};
	#endif
#else
	#if VF_LOG
		inst = new (arena) Instance{ctx, withLogger ? &logger : nullptr};
	#else
		inst = new (arena) Instance{ctx};
	#endif
#endif
	}
	void copyConstruct(void* arena, vf::INode& from_, vf::IHarness* h) override {
		Node& from = static_cast<Node&>(from_);
		harness = h;
		rngCell = from.rngCell;      // the copy refers to the very same generator object as the original
		rngObj  = from.rngObj;
		{
			vf::LibScope ls;
			inst = new (arena) Instance{*from.inst};
		}
		hfsm2_verif::Probe::core(*inst).context.h = h;
		typed = from.typed;
#if VF_LOG
		if (hfsm2_verif::Probe::core(*inst).logger) inst->attachLogger(&logger);
#endif
	}
	void destroy() override {
		if (inst) { drive(); vf::LibScope ls; inst->~Instance(); inst = nullptr; }
	}
	void abandon() override { inst = nullptr; }
	void setHarness(vf::IHarness* h) override { harness = h; if (inst) hfsm2_verif::Probe::core(*inst).context.h = h; }
	const void* address() const override { return inst; }
	const void* stateAddress(int s) const override {
		switch (s) {
#define VF_ADDR_CASE(N) case N: return stateAddr<N>(*inst);
		VF_FOR_EACH_STATE(VF_ADDR_CASE)
#undef VF_ADDR_CASE
		default: return nullptr;
		}
	}
	void drive() const { if (rngCell) *rngCell = harness; }   // this node is the one being driven now

	bool activated() const override {
#if VF_MANUAL
		return inst->isActive();
#else
		return true;
#endif
	}
	void enter() override {
#if VF_MANUAL
		drive(); vf::LibScope ls; inst->enter();
#endif
	}
	void exit() override {
#if VF_MANUAL
		drive(); vf::LibScope ls; inst->exit();
#endif
	}
	void update() override { drive(); vf::LibScope ls; inst->update(); }
	void react(int ev) override { drive(); vf::LibScope ls; if (ev == 0) inst->react(Ev0{}); else inst->react(Ev1{}); }
	void query(int) override { drive(); vf::LibScope ls; Qr0 q; static_cast<const Instance*>(inst)->query(q); }

	bool typed = false;
#if VF_PLANS
	auto planOf(int region) const {
		if (typed) switch (region) {
#define VF_PLAN_CASE(R, N) case R: return inst->template plan<St<N>>();
		VF_FOR_EACH_HEADED_REGION(VF_PLAN_CASE)
#undef VF_PLAN_CASE
		default: break;
		}
		return inst->plan(hfsm2::RegionID(region));
	}
#endif
	void useTyped(bool on) override { typed = on; if (inst) hfsm2_verif::Probe::core(*inst).context.typed = on; }

	void request(int kind, int dest, const int64_t* payload) override {
		drive(); vf::LibScope ls;
		const hfsm2::StateID d = hfsm2::StateID(dest);
		if (typed && withStateType(dest, [&](auto t) {
			using T = typename decltype(t)::type;
#if VF_PAYLOAD
			if (payload) {
				const Payload p = toPayload(*payload);
				switch (kind) {
				case vf::K_CHANGE:    inst->template changeWith   <T>(p); return;
				case vf::K_RESTART:   inst->template restartWith  <T>(p); return;
				case vf::K_RESUME:    inst->template resumeWith   <T>(p); return;
				case vf::K_SELECT:    inst->template selectWith   <T>(p); return;
#if VF_UTILITY
				case vf::K_UTILIZE:   inst->template utilizeWith  <T>(p); return;
				case vf::K_RANDOMIZE: inst->template randomizeWith<T>(p); return;
#endif
				case vf::K_SCHEDULE:  inst->template scheduleWith <T>(p); return;
				default: return;
				}
			}
#endif
			switch (kind) {
			case vf::K_CHANGE:    inst->template changeTo <T>(); return;
			case vf::K_RESTART:   inst->template restart  <T>(); return;
			case vf::K_RESUME:    inst->template resume   <T>(); return;
			case vf::K_SELECT:    inst->template select   <T>(); return;
#if VF_UTILITY
			case vf::K_UTILIZE:   inst->template utilize  <T>(); return;
			case vf::K_RANDOMIZE: inst->template randomize<T>(); return;
#endif
			case vf::K_SCHEDULE:  inst->template schedule <T>(); return;
			default: return;
			}
		})) return;
#if VF_PAYLOAD
		if (payload) {
			const Payload p = toPayload(*payload);
			switch (kind) {
			case vf::K_CHANGE:    inst->changeWith   (d, p); return;
			case vf::K_RESTART:   inst->restartWith  (d, p); return;
			case vf::K_RESUME:    inst->resumeWith   (d, p); return;
			case vf::K_SELECT:    inst->selectWith   (d, p); return;
#if VF_UTILITY
			case vf::K_UTILIZE:   inst->utilizeWith  (d, p); return;
			case vf::K_RANDOMIZE: inst->randomizeWith(d, p); return;
#endif
			case vf::K_SCHEDULE:  inst->scheduleWith (d, p); return;
			default: return;
			}
		}
#else
		(void) payload;
#endif
		switch (kind) {
		case vf::K_CHANGE:    inst->changeTo (d); return;
		case vf::K_RESTART:   inst->restart  (d); return;
		case vf::K_RESUME:    inst->resume   (d); return;
		case vf::K_SELECT:    inst->select   (d); return;
#if VF_UTILITY
		case vf::K_UTILIZE:   inst->utilize  (d); return;
		case vf::K_RANDOMIZE: inst->randomize(d); return;
#endif
		case vf::K_SCHEDULE:  inst->schedule (d); return;
		default: return;
		}
	}
	void immediate(int kind, int dest, const int64_t* payload) override {
		drive(); vf::LibScope ls;
		const hfsm2::StateID d = hfsm2::StateID(dest);
		if (typed && withStateType(dest, [&](auto t) {
			using T = typename decltype(t)::type;
#if VF_PAYLOAD
			if (payload) {
				const Payload p = toPayload(*payload);
				switch (kind) {
				case vf::K_CHANGE:    inst->template immediateChangeWith   <T>(p); return;
				case vf::K_RESTART:   inst->template immediateRestartWith  <T>(p); return;
				case vf::K_RESUME:    inst->template immediateResumeWith   <T>(p); return;
				case vf::K_SELECT:    inst->template immediateSelectWith   <T>(p); return;
#if VF_UTILITY
				case vf::K_UTILIZE:   inst->template immediateUtilizeWith  <T>(p); return;
				case vf::K_RANDOMIZE: inst->template immediateRandomizeWith<T>(p); return;
#endif
				default: return;
				}
			}
#endif
			switch (kind) {
			case vf::K_CHANGE:    inst->template immediateChangeTo <T>(); return;
			case vf::K_RESTART:   inst->template immediateRestart  <T>(); return;
			case vf::K_RESUME:    inst->template immediateResume   <T>(); return;
			case vf::K_SELECT:    inst->template immediateSelect   <T>(); return;
#if VF_UTILITY
			case vf::K_UTILIZE:   inst->template immediateUtilize  <T>(); return;
			case vf::K_RANDOMIZE: inst->template immediateRandomize<T>(); return;
#endif
			default: return;
			}
		})) return;
#if VF_PAYLOAD
		if (payload) {
			const Payload p = toPayload(*payload);
			switch (kind) {
			case vf::K_CHANGE:    inst->immediateChangeWith   (d, p); return;
			case vf::K_RESTART:   inst->immediateRestartWith  (d, p); return;
			case vf::K_RESUME:    inst->immediateResumeWith   (d, p); return;
			case vf::K_SELECT:    inst->immediateSelectWith   (d, p); return;
#if VF_UTILITY
			case vf::K_UTILIZE:   inst->immediateUtilizeWith  (d, p); return;
			case vf::K_RANDOMIZE: inst->immediateRandomizeWith(d, p); return;
#endif
			default: return;
			}
		}
#else
		(void) payload;
#endif
		switch (kind) {
		case vf::K_CHANGE:    inst->immediateChangeTo (d); return;
		case vf::K_RESTART:   inst->immediateRestart  (d); return;
		case vf::K_RESUME:    inst->immediateResume   (d); return;
		case vf::K_SELECT:    inst->immediateSelect   (d); return;
#if VF_UTILITY
		case vf::K_UTILIZE:   inst->immediateUtilize  (d); return;
		case vf::K_RANDOMIZE: inst->immediateRandomize(d); return;
#endif
		default: return;
		}
	}
	void succeed(int s) override {
#if VF_PLANS
		drive(); vf::LibScope ls;
		if (typed && withStateType(s, [&](auto t) { inst->template succeed<typename decltype(t)::type>(); })) return;
		inst->succeed(hfsm2::StateID(s));
#endif
		(void) s;
	}
	void fail(int s) override {
#if VF_PLANS
		drive(); vf::LibScope ls;
		if (typed && withStateType(s, [&](auto t) { inst->template fail<typename decltype(t)::type>(); })) return;
		inst->fail(hfsm2::StateID(s));
#endif
		(void) s;
	}
	bool planAppend(int region, int kind, int origin, int dest, const int64_t* payload) override {
#if VF_PLANS
		drive(); vf::LibScope ls;
		auto p = planOf(region);
		const hfsm2::StateID o = hfsm2::StateID(origin), d = hfsm2::StateID(dest);
#if VF_PAYLOAD
		if (payload) {
			const Payload v = toPayload(*payload);
			switch (kind) {
			case vf::K_CHANGE:    return p.changeWith   (o, d, v);
			case vf::K_RESTART:   return p.restartWith  (o, d, v);
			case vf::K_RESUME:    return p.resumeWith   (o, d, v);
			case vf::K_SELECT:    return p.selectWith   (o, d, v);
#if VF_UTILITY
			case vf::K_UTILIZE:   return p.utilizeWith  (o, d, v);
			case vf::K_RANDOMIZE: return p.randomizeWith(o, d, v);
#endif
			case vf::K_SCHEDULE:  return p.scheduleWith (o, d, v);
			default: return false;
			}
		}
#endif
		switch (kind) {
		case vf::K_CHANGE:    return p.change   (o, d);
		case vf::K_RESTART:   return p.restart  (o, d);
		case vf::K_RESUME:    return p.resume   (o, d);
		case vf::K_SELECT:    return p.select   (o, d);
#if VF_UTILITY
		case vf::K_UTILIZE:   return p.utilize  (o, d);
		case vf::K_RANDOMIZE: return p.randomize(o, d);
#endif
		case vf::K_SCHEDULE:  return p.schedule (o, d);
		default: return false;
		}
#else
		(void) region; (void) kind; (void) origin; (void) dest; (void) payload;
		return false;
#endif
	}
	void planClear(int region) override {
#if VF_PLANS
		drive(); vf::LibScope ls; planOf(region).clear();
#endif
		(void) region;
	}
	bool planRemoveAt(int region, int index) override {
#if VF_PLANS
		drive(); vf::LibScope ls;
		auto p = planOf(region);
		int i = 0;
		for (auto it = p.begin(); it && i <= int(FSM::TASK_CAPACITY); ++it, ++i)
			if (i == index) { it.remove(); return true; }
#endif
		(void) region; (void) index;
		return false;
	}
	void planRead(int region, std::vector<vf::TaskV>& out) const override {
		out.clear();
#if VF_PLANS
		auto p = planOf(region);
		std::vector<vf::TaskV> tmp;
		{
			vf::LibScope ls;
			int guard = 0;
			for (auto it = p.begin(); it; ++it) {
				vf::HarnessScope hs;
				if (++guard > int(FSM::TASK_CAPACITY)) { vf::TaskV cyc; cyc.origin = -99; tmp.push_back(cyc); break; }    // more items than the pool holds: the list is cyclic
				tmp.push_back(toTask(*it));
			}
		}
		out.swap(tmp);
#endif
		(void) region;
	}
	void reset() override { drive(); vf::LibScope ls; inst->reset(); }
	void attachLogger(bool on) override {
#if VF_LOG
		vf::LibScope ls; inst->attachLogger(on ? &logger : nullptr);
#endif
		(void) on;
	}
	uint8_t saveFill = 0xB7;
	void setSaveFill(uint8_t v) override { saveFill = v; }
	void save(std::vector<uint8_t>& out) const override {
		out.clear();
#if VF_SERIAL
		// the buffer sits between red zones: [guard | SerialBuffer | guard]
		struct Box { uint8_t pre[32]; typename Instance::SerialBuffer buf; uint8_t post[32]; };
		Box box;
		std::memset(box.pre, 0xC3, sizeof(box.pre)); std::memset(box.post, 0xC3, sizeof(box.post));
		std::memset(&box.buf.data(), saveFill, sizeof(box.buf.data()));   // a buffer that was used before: save() must not depend on its content
		{ vf::LibScope ls; static_cast<const Instance*>(inst)->save(box.buf); }
		bool intact = true;
		for (unsigned i = 0; i < 32; ++i) intact = intact && box.pre[i] == 0xC3 && box.post[i] == 0xC3;
		const uint8_t* d = reinterpret_cast<const uint8_t*>(&box.buf.data());
		out.assign(d, d + sizeof(box.buf.data()));
		if (!intact) out.push_back(0xEE);   // engine sees a size mismatch and reports it
#endif
	}
	void load(const std::vector<uint8_t>& in) override {
#if VF_SERIAL
		typename Instance::SerialBuffer buf;
		std::memcpy(&buf.data(), in.data(), in.size() < sizeof(buf.data()) ? in.size() : sizeof(buf.data()));
		drive(); vf::LibScope ls; inst->load(buf);
#endif
		(void) in;
	}
	void previous(std::vector<vf::Tr>& out) const override {
		out.clear();
#if VF_HISTORY
		toTrs(inst->previousTransitions(), out);
#endif
	}
	bool replay(const std::vector<vf::Tr>& trs) override {
#if VF_HISTORY
		std::vector<Transition> v; for (const auto& t : trs) v.push_back(fromTr(t));
		drive(); vf::LibScope ls;
		// two overloads: pointer + count, and the bounded array previousTransitions() returns; which one is a function of the list itself
		using Sets = typename std::decay<decltype(inst->previousTransitions())>::type;
		if (!v.empty() && ((v.size() + size_t(v[0].destination)) & 1) != 0 && v.size() <= size_t(Sets::CAPACITY)) {
			Sets arr; for (const auto& t : v) arr.emplace(t);
			return inst->replayTransitions(arr);
		}
		return inst->replayTransitions(v.data(), hfsm2::Short(v.size()));
#else
		(void) trs; return false;
#endif
	}
	bool replayEnter(const std::vector<vf::Tr>& trs) override {
#if VF_HISTORY && VF_MANUAL
		std::vector<Transition> v; for (const auto& t : trs) v.push_back(fromTr(t));
		drive(); vf::LibScope ls;
		using Sets = typename std::decay<decltype(inst->previousTransitions())>::type;
		if (!v.empty() && ((v.size() + size_t(v[0].destination)) & 1) != 0 && v.size() <= size_t(Sets::CAPACITY)) {
			Sets arr; for (const auto& t : v) arr.emplace(t);
			return inst->replayEnter(arr);
		}
		return inst->replayEnter(v.data(), hfsm2::Short(v.size()));
#else
		(void) trs; return false;
#endif
	}
	int lastTransitionTo(int s, vf::Tr& out) const override {
#if VF_HISTORY
		decltype(inst->lastTransitionTo(hfsm2::StateID(0))) t = nullptr;
		if (!(typed && withStateType(s, [&](auto tag) { t = inst->template lastTransitionTo<typename decltype(tag)::type>(); }))) t = inst->lastTransitionTo(hfsm2::StateID(s));
		if (t) {
			out = toTr(*t);
			const auto& prev = inst->previousTransitions();
			if (prev.count() == 0) return -2;                       // non-null while the array is empty
			const auto* b = &prev[0];
			if (t < b || t >= b + prev.count()) return -2;          // points outside the array
			return int(t - b);
		}
#endif
		(void) s; (void) out; return -1;
	}

	bool isActive(int s) const override {
		bool r = false;
		if (typed && withStateType(s, [&](auto t) { r = inst->template isActive<typename decltype(t)::type>(); })) return r;
		return inst->isActive(hfsm2::StateID(s));
	}
	bool isResumable(int s) const override {
		bool r = false;
		if (typed && withStateType(s, [&](auto t) { r = (s & 1) ? inst->template isResumable<typename decltype(t)::type>() : inst->template isScheduled<typename decltype(t)::type>(); })) return r;
		return (s & 2) ? inst->isResumable(hfsm2::StateID(s)) : inst->isScheduled(hfsm2::StateID(s));
	}
	int  activeSubState(int s) const override {
		hfsm2::Prong p = hfsm2::INVALID_PRONG;
		if (!(typed && withStateType(s, [&](auto t) { p = inst->template activeSubState<typename decltype(t)::type>(); }))) p = inst->activeSubState(hfsm2::StateID(s));
		return p == hfsm2::INVALID_PRONG ? -1 : int(p);
	}
	bool isPendingEnter (int s) const override { bool r = false; if (typed && withStateType(s, [&](auto t) { r = inst->template isPendingEnter <typename decltype(t)::type>(); })) return r; return inst->isPendingEnter (hfsm2::StateID(s)); }
	bool isPendingExit  (int s) const override { bool r = false; if (typed && withStateType(s, [&](auto t) { r = inst->template isPendingExit  <typename decltype(t)::type>(); })) return r; return inst->isPendingExit  (hfsm2::StateID(s)); }
	bool isPendingChange(int s) const override { bool r = false; if (typed && withStateType(s, [&](auto t) { r = inst->template isPendingChange<typename decltype(t)::type>(); })) return r; return inst->isPendingChange(hfsm2::StateID(s)); }
	void requests(std::vector<vf::Tr>& out) const override { toTrs(hfsm2_verif::Probe::core(*inst).requests, out); }
	bool structureActive(int s) const override {
#if VF_REPORT
		return inst->structure()[hfsm2::Long(s)].isActive;
#else
		(void) s; return false;
#endif
	}
	int activity(int s) const override {
#if VF_REPORT
		return int(inst->activityHistory()[hfsm2::Long(s)]);
#else
		(void) s; return 0;
#endif
	}
	void probePlans(vf::PlanProbe& out) const override {
		out = vf::PlanProbe{};
#if VF_PLANS
		hfsm2_verif::Probe::plans(*inst, out, theShape().n, theShape().nRegions);
#endif
	}
	void probeRegistry(vf::RegistryProbe& out) const override {
		out = vf::RegistryProbe{};
		hfsm2_verif::Probe::registry(*inst, out, theShape().compoCount);
	}
};

inline vf::INode* makeNode() { return new Node; }

struct Registrar {
	Registrar() {
		vf::NodeFactory f;
		f.shape = VF_SHAPE_NAME; f.config = VF_CFG_NAME; f.desc = &theShape(); f.make = &makeNode;
		Node n; f.caps = n.caps();
		vf::registerFactory(f);
	}
};
static Registrar theRegistrar;

} // namespace VF_NS
