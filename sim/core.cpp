// core.cpp -- shape descriptor, names, factory registry, assertion handler, allocation counters.
#include "vf.hpp"
#include <cstdio>
#include <cstdlib>
#include <new>
#include <algorithm>

namespace vf {

const char* methodName(int m) {
	static const char* n[] = {"none", "select", "rank", "utility", "entryGuard", "enter", "reenter", "preUpdate", "update",
		"postUpdate", "preReact", "react", "query", "postReact", "exitGuard", "exit", "planSucceeded", "planFailed"};
	return (m >= 0 && m < M_COUNT) ? n[m] : "?";
}
const char* kindName(int k) {
	static const char* n[] = {"change", "restart", "resume", "select", "utilize", "randomize", "schedule"};
	return (k >= 0 && k < K_COUNT) ? n[k] : "?";
}

void Shape::build(const char* name_, const char* dsl_, const StateDesc* tab, int count) {
	name = name_; dsl = dsl_; n = count;
	st.assign(tab, tab + count);
	kids.assign(n, {});
	compoIndex.assign(n, -1);
	nRegions = 0; compoCount = 0;
	for (int s = 0; s < n; ++s) {
		if (st[s].parent >= 0) {
			auto& k = kids[st[s].parent];
			if (int(k.size()) <= st[s].prong) k.resize(st[s].prong + 1, -1);
			k[st[s].prong] = s;
		}
		if (st[s].kind != 0) {
			++nRegions;
			if (st[s].kind == 1) compoIndex[s] = compoCount++;
			if (st[s].strategy == 3 || st[s].strategy == 4) usesUtility = true;
			if (st[s].kind == 2) hasOrtho = true;
		}
	}
	regionHead.assign(nRegions, -1);
	for (int s = 0; s < n; ++s)
		if (st[s].region >= 0) regionHead[st[s].region] = s;
}

int Shape::compoParent(int s, int* prong) const {
	int c = s;
	for (int p = st[s].parent; p >= 0; c = p, p = st[p].parent)
		if (st[p].kind == 1) { if (prong) *prong = st[c].prong; return p; }
	if (prong) *prong = -1;
	return -1;
}

// the save format, read off the property: one bit "activated"; every active composite-style region writes its active sub-state index
// (as many bits as its width needs); every composite-style region, active or not, writes one flag and, if set, its resumable index.
// Only one sub-state of a composite region is active at a time (longest alternative counts), all sub-states of an orthogonal one are.
static int indexBits(int width) { int b = 0; while ((1 << b) < width) ++b; return b; }
static int activeBitsOf(const Shape& sh, int s) {
	if (sh.st[size_t(s)].kind == 0) return 0;
	int best = 0, sum = 0;
	for (int c : sh.kids[size_t(s)]) { const int v = activeBitsOf(sh, c); best = std::max(best, v); sum += v; }
	return sh.st[size_t(s)].kind == 1 ? indexBits(sh.st[size_t(s)].width) + best : sum;
}
int Shape::serialBitsNeeded() const {
	int resumable = 0;
	for (int s = 0; s < n; ++s) if (st[size_t(s)].kind == 1) resumable += 1 + indexBits(st[size_t(s)].width);
	return 1 + activeBitsOf(*this, 0) + resumable;
}

static std::vector<NodeFactory>& factoryList() { static std::vector<NodeFactory> v; return v; }
void registerFactory(const NodeFactory& f) { factoryList().push_back(f); }
const std::vector<NodeFactory>& factories() { return factoryList(); }

thread_local std::vector<AssertHit>* g_assertSink = nullptr;
thread_local std::jmp_buf* g_assertJump = nullptr;
thread_local bool (*g_assertPolicy)(const char*) = nullptr;
thread_local long g_libAllocs = 0;
thread_local int  g_inLibrary = 0;

} // namespace vf

// ---- the external handlers the HFSM2_VERIF hook calls ------------------------------------------------

static void recordHit(const char* expr, const char* file, int line) {
	vf::HarnessScope hs;
	if (vf::g_assertSink) {
		if (vf::g_assertSink->size() < 64) {
			vf::AssertHit h; h.expr = expr; h.line = line;
			const char* base = file;
			for (const char* p = file; *p; ++p) if (*p == '/') base = p + 1;
			h.file = base;
			vf::g_assertSink->push_back(h);
		}
		if (vf::g_assertJump && (!vf::g_assertPolicy || vf::g_assertPolicy(expr))) { std::jmp_buf* j = vf::g_assertJump; vf::g_assertJump = nullptr; std::longjmp(*j, 1); }
	} else {
		std::fprintf(stderr, "hfsm2 assertion outside a run: %s at %s:%d\n", expr, file, line);
	}
}
extern "C" void hfsm2_verif_break(const char* file, int line) { recordHit("HFSM2_BREAK()", file, line); }
extern "C" void hfsm2_verif_assert(const char* expr, const char* file, int line) { recordHit(expr, file, line); }

// ---- allocation counters (plain build only: ASan owns malloc in the sanitizer build) --------------------
#ifdef VF_COUNT_ALLOCS
void* operator new(std::size_t n) {
	if (vf::g_inLibrary > 0) ++vf::g_libAllocs;
	void* p = std::malloc(n ? n : 1);
	if (!p) std::abort();
	return p;
}
void* operator new[](std::size_t n) {
	if (vf::g_inLibrary > 0) ++vf::g_libAllocs;
	void* p = std::malloc(n ? n : 1);
	if (!p) std::abort();
	return p;
}
void operator delete(void* p) noexcept { std::free(p); }
void operator delete[](void* p) noexcept { std::free(p); }
void operator delete(void* p, std::size_t) noexcept { std::free(p); }
void operator delete[](void* p, std::size_t) noexcept { std::free(p); }
extern "C" void* __real_malloc(size_t);
extern "C" void* __real_calloc(size_t, size_t);
extern "C" void* __real_realloc(void*, size_t);
extern "C" void* __wrap_malloc(size_t n) { if (vf::g_inLibrary > 0) ++vf::g_libAllocs; return __real_malloc(n); }
extern "C" void* __wrap_calloc(size_t a, size_t b) { if (vf::g_inLibrary > 0) ++vf::g_libAllocs; return __real_calloc(a, b); }
extern "C" void* __wrap_realloc(void* p, size_t n) { if (vf::g_inLibrary > 0) ++vf::g_libAllocs; return __real_realloc(p, n); }
#endif
