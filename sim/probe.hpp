// probe.hpp -- the read-only probe befriended by R_ and TaskListT under HFSM2_VERIF.
// Included after the HFSM2 header. Identical in every TU (member templates only).
#pragma once
#include "vf.hpp"

namespace hfsm2_verif {

struct Probe {
	template <typename TG, typename TA>
	static auto core(::hfsm2::detail::R_<TG, TA>& r) -> decltype((r._core)) { return r._core; }

	template <typename TG, typename TA>
	static auto core(const ::hfsm2::detail::R_<TG, TA>& r) -> decltype((r._core)) { return r._core; }

	template <typename TG, typename TA>
	static void registry(const ::hfsm2::detail::R_<TG, TA>& r, vf::RegistryProbe& out, int compoCount) {
		const auto& reg = r._core.registry;
		out.active.clear(); out.resumable.clear(); out.requested.clear(); out.remain.clear();
		for (int i = 0; i < compoCount; ++i) {
			const auto a = reg.compoActive   [::hfsm2::Short(i)];
			const auto s = reg.compoResumable[::hfsm2::Short(i)];
			const auto q = reg.compoRequested[::hfsm2::Short(i)];
			out.active   .push_back(a == ::hfsm2::INVALID_PRONG ? -1 : int(a));
			out.resumable.push_back(s == ::hfsm2::INVALID_PRONG ? -1 : int(s));
			out.requested.push_back(q == ::hfsm2::INVALID_PRONG ? -1 : int(q));
			out.remain   .push_back(reg.compoRemains.get(::hfsm2::Short(i)) ? 1 : 0);
		}
		out.orthoRequestedAny = !reg.orthoRequested.empty();
		out.requestCount    = int(r._core.requests.count());
		out.requestCapacity = int(r._core.requests.CAPACITY);
	}

#ifdef HFSM2_ENABLE_PLANS
	template <typename TP, ::hfsm2::Long NC>
	static void pool(const ::hfsm2::detail::TaskListT<TP, NC>& t, vf::PlanProbe& out) {
		out.capacity   = int(NC);
		out.count      = int(t._count);
		out.last       = int(t._last);
		out.vacantHead = t._vacantHead == ::hfsm2::detail::TaskListT<TP, NC>::INVALID ? -1 : int(t._vacantHead);
		out.vacantTail = t._vacantTail == ::hfsm2::detail::TaskListT<TP, NC>::INVALID ? -1 : int(t._vacantTail);
		out.itemPrev.clear(); out.itemNext.clear();
		for (::hfsm2::Long i = 0; i < NC; ++i) {
			out.itemPrev.push_back(t._items[i].prev == ::hfsm2::INVALID_LONG ? -1 : int(t._items[i].prev));
			out.itemNext.push_back(t._items[i].next == ::hfsm2::INVALID_LONG ? -1 : int(t._items[i].next));
		}
	}

	template <typename TG, typename TA>
	static void plans(const ::hfsm2::detail::R_<TG, TA>& r, vf::PlanProbe& out, int nStates, int nRegions) {
		const auto& pd = r._core.planData;
		pool(pd.tasks, out);
		out.linkPrev.clear(); out.linkNext.clear();
		for (int i = 0; i < out.capacity; ++i) {
			const auto& l = pd.taskLinks[::hfsm2::Long(i)];
			out.linkPrev.push_back(l.prev == ::hfsm2::INVALID_LONG ? -1 : int(l.prev));
			out.linkNext.push_back(l.next == ::hfsm2::INVALID_LONG ? -1 : int(l.next));
		}
		out.boundFirst.clear(); out.boundLast.clear(); out.planExists.clear(); out.headStatus.clear(); out.subStatus.clear();
		for (int g = 0; g < nRegions; ++g) {
			const auto& b = pd.taskBounds[::hfsm2::Long(g)];
			out.boundFirst.push_back(b.first == ::hfsm2::INVALID_LONG ? -1 : int(b.first));
			out.boundLast .push_back(b.last  == ::hfsm2::INVALID_LONG ? -1 : int(b.last));
			out.planExists.push_back(pd.planExists.get(::hfsm2::Long(g)) ? 1 : 0);
			const auto& hs = pd.headStatuses[::hfsm2::Long(g)];
			const auto& ss = pd. subStatuses[::hfsm2::Long(g)];
			out.headStatus.push_back(uint8_t(int(hs.result) | (hs.outerTransition ? 4 : 0)));
			out.subStatus .push_back(uint8_t(int(ss.result) | (ss.outerTransition ? 4 : 0)));
		}
		out.success.clear(); out.failure.clear();
		for (int s = 0; s < nStates; ++s) {
			out.success.push_back(pd.tasksSuccesses.get(::hfsm2::Long(s)) ? 1 : 0);
			out.failure.push_back(pd.tasksFailures .get(::hfsm2::Long(s)) ? 1 : 0);
		}
	}
#endif
};

} // namespace hfsm2_verif
